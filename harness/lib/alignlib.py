"""Driving the REAL Aligner.align and recording its rows in the terms of AlignCore.tla."""
from __future__ import annotations

import random
from fractions import Fraction
from typing import Dict, List

from . import gen


def par_record(p: gen.Params, scale: int = 1) -> Dict:
    dp = Fraction(p.dp).limit_denominator(8)
    sj = Fraction(p.sj).limit_denominator(8)
    return {"sp": p.sp, "dpnum": dp.numerator, "dpden": dp.denominator, "su": p.su, "maxD": p.d, "ms": p.ms,
            "bs": p.bs, "mnum": sj.numerator, "mden": sj.denominator, "variant": p.ss, "scale": scale}


def params_of(par: Dict) -> gen.Params:
    return gen.Params(sp=par["sp"], dp=par["dpnum"] / par["dpden"], su=par["su"], d=par["maxD"], ms=par["ms"],
                      bs=par["bs"], sj=par["mnum"] / par["mden"], ss=par["variant"])


# The pipeline wires ONE Aligner per process (WorkflowCoordinatorFactory.create) and that object serves every query,
# reference and strand of the run. The harness does the same: one aligner per parameter vector, every case with its
# own pair of map ids (ids identify maps within a run), and before the call that is judged the same maps and peaks are
# aligned on the opposite strand (the workflow aligns both strands of a query against a reference, and refined peaks
# of the two strands may coincide). State that leaks from one call into the next is then visible to the clauses.
_ALIGNERS: Dict = {}
_CASE_NO = [0]


def shared_aligner(p: gen.Params):
    key = (p.sp, p.dp, p.su, p.d, p.ms, p.bs, p.sj, p.ss)
    if key not in _ALIGNERS:
        _ALIGNERS[key] = gen.real_aligner(p)
    return _ALIGNERS[key]


def run_align(inp: Dict, replay_chain: bool) -> Dict:
    """inp = {ref, qry, qlen, shift, rev, peaks, par}; returns the trace record for Trace_AlignCore"""
    from src.correlation.peak import Peak
    par = inp["par"]
    p = params_of(par)
    den = par["dpden"]
    aligner, chainer, _ = shared_aligner(p)
    _CASE_NO[0] += 1
    ref, qry = gen.optical_maps(inp["ref"], inp["qry"], qlen=inp["qlen"], shift=inp["shift"],
                                ref_len=(inp["ref"][-1] + 1000) if inp["ref"] else 1000,
                                qid=5 + 2 * _CASE_NO[0], rid=4 + 2 * _CASE_NO[0])
    peaks = [Peak(x, 1.) for x in inp["peaks"]]
    chain: List[int] = []
    obs = {"status": "ok", "segs": [], "pairs": [], "conf": 0}
    try:
        aligner.align(ref, qry, [Peak(x, 1.) for x in inp["peaks"]], not inp["rev"])     # the other strand first (not judged)
    except Exception:
        pass
    try:
        if not replay_chain:
            segs = []
            for pk in peaks:
                segs.extend(aligner.getSegments(inp["rev"], pk, qry, ref))
            if len(segs) >= 2:
                index = {id(s): k for k, s in enumerate(segs, start=1)}
                chain = [index[id(s)] for s in chainer.chain(list(segs))]
        row = aligner.align(ref, qry, peaks, inp["rev"])
        for s in row.segments:
            obs["segs"].append({"peak": int(s.peak.position), "pos": [gen.pos_record(x, den) for x in s.positions]})
        obs["pairs"] = [[a.reference.siteId, a.query.siteId] for a in row.alignedPairs]
        c = row.confidence * den
        obs["conf"] = int(round(c)) if abs(c - round(c)) < 1e-6 else 10 ** 9
        obs["hdr"] = {"qs": int(row.queryStartPosition), "qe": int(row.queryEndPosition),
                      "rs": int(row.referenceStartPosition), "re": int(row.referenceEndPosition)}
    except Exception as e:
        obs["status"] = "exc:" + type(e).__name__
    return {"in": inp, "chain": chain, "replayChain": replay_chain, "nq": inp["shift"] + len(inp["qry"]),
            "obs": obs}


def ladder_input(rng: random.Random) -> Dict:
    c = gen.ladder_case(rng)
    return {"ref": c["ref"], "qry": c["qry"], "qlen": c["qlen"], "shift": 0, "rev": c["rev"], "peaks": c["peaks"],
            "par": par_record(c["params"])}


def ladder_records(rng: random.Random, n: int) -> List[Dict]:
    """n rows; three quarters of them are required to have >= 2 non-empty segments before chaining (the cases in
    which chaining and conflict resolution matter), the rest is taken as it comes"""
    out = []
    attempts = 0
    while len(out) < n and attempts < 12 * n:
        attempts += 1
        rec = run_align(ladder_input(rng), False)
        if len(out) % 4 != 3 and len(rec["chain"]) < 2:
            continue
        out.append(rec)
    return out


def multi_segment(rec: Dict) -> bool:
    return len([s for s in rec["obs"]["segs"] if s["pos"]]) >= 2
