"""Check context: evidence accounting, verdicts, known findings, replay files, exit codes.

Exit codes (DESIGN.md 2.1): 0 = property held on everything explored (known findings are printed as
KNOWN-FINDING lines); 1 = at least one VIOLATION not listed in known_findings.json; 2 = machinery failure.
"""
from __future__ import annotations

import json
import os
import shutil
import sys
import time
import traceback
from typing import Any, Callable, Dict, List, Optional

VERIF = os.path.dirname(os.path.dirname(os.path.dirname(os.path.abspath(__file__))))
REPO = os.environ.get("VERIF_REPO", "/repo")
EVIDENCE_DIR = os.environ.get("VERIF_EVIDENCE_DIR", os.path.join(VERIF, "evidence"))
REPLAY_DIR = os.environ.get("VERIF_REPLAY_DIR", os.path.join(VERIF, "replays"))
KNOWN = os.path.join(VERIF, "known_findings.json")


def load_known() -> List[dict]:
    if not os.path.exists(KNOWN):
        return []
    with open(KNOWN) as f:
        return json.load(f).get("findings", [])


class Ctx:
    def __init__(self, prop: str, tier: str, seed: int, level: str = "model_checking"):
        self.prop = prop
        self.tier = tier
        self.seed = seed
        self.level = level
        self.t0 = time.time()
        self.workdir = os.path.join(VERIF, "work", f"{prop}-{os.getpid()}")
        os.makedirs(self.workdir, exist_ok=True)
        os.makedirs(EVIDENCE_DIR, exist_ok=True)
        self.states = 0
        self.transitions = 0
        self.traces = 0
        self.evaluations = 0
        self.nontrivial_keys = set()
        self.nontrivial_extra = 0
        self.samples: List[Any] = []
        self.violations: List[dict] = []
        self.known_hits: Dict[str, int] = {}
        self.clause_counts: Dict[str, int] = {}
        self.known_example: Dict[str, str] = {}
        self.drift = 0
        self.drift_samples: List[Any] = []
        self.notes: Dict[str, Any] = {}
        self.assumptions: List[str] = []
        self.rule = ""
        self.model_runs: List[dict] = []
        self.exhaustive = False
        self.known = [k for k in load_known() if k.get("property") == prop]

    # ---------------------------------------------------------------- accounting
    def add_model(self, name: str, r, exhaustive: bool = True):
        self.states += r.distinct
        self.transitions += r.generated
        d = {"module": name, "states": r.distinct, "transitions": r.generated, "depth": r.depth,
             "wall_s": round(r.wall_s, 1), "exhaustive": exhaustive}
        if r.coverage:
            d["action_coverage"] = r.coverage
        self.model_runs.append(d)

    def add_traces(self, n: int):
        self.traces += n
        self.evaluations += n

    def sample(self, s: Any, limit: int = 3):
        if len(self.samples) < limit:
            self.samples.append(s)

    def nontrivial(self, key: Any):
        self.nontrivial_keys.add(key if isinstance(key, (str, int, tuple)) else json.dumps(key, sort_keys=True))

    def add_drift(self, n: int, sample: Any = None):
        self.drift += n
        if sample is not None and len(self.drift_samples) < 3:
            self.drift_samples.append(sample)

    # ---------------------------------------------------------------- verdicts
    def violation(self, case: Any, clauses: List[str], signature: str = "", what: str = ""):
        """A property predicate is FALSE on data the real code produced."""
        key = ",".join(clauses) + (f" [{signature}]" if signature else "")
        self.clause_counts[key] = self.clause_counts.get(key, 0) + 1
        for k in self.known:
            if k.get("signature") and k["signature"] == signature:
                self.known_hits[k["id"]] = self.known_hits.get(k["id"], 0) + 1
                self.known_example.setdefault(k["id"], what or ",".join(clauses))
                return
        if len(self.violations) < 10:
            os.makedirs(REPLAY_DIR, exist_ok=True)
            path = os.path.join(REPLAY_DIR, f"{self.prop}-{len(self.violations) + 1}.json")
            with open(path, "w") as f:
                json.dump({"property": self.prop, "clauses": clauses, "signature": signature, "what": what,
                           "case": case}, f)
            self.violations.append({"path": path, "clauses": clauses, "signature": signature, "what": what})
        else:
            self.violations.append({"path": self.violations[0]["path"], "clauses": clauses,
                                    "signature": signature, "what": what})

    # ---------------------------------------------------------------- finish
    def finish(self) -> int:
        wall = time.time() - self.t0
        cov: Dict[str, Any] = {
            "states": self.states,
            "transitions": self.transitions,
            "traces_validated_against_impl": self.traces,
            "evaluations": max(self.evaluations, 1),
            "distinct_nontrivial": len(self.nontrivial_keys) + self.nontrivial_extra,
            "rule": self.rule,
            "samples": self.samples or ["(no case was generated)"],
            "exhaustive": self.exhaustive,
            "model_runs": self.model_runs,
            "drift_cases": self.drift,
            "drift_samples": self.drift_samples,
            "known_finding_hits": self.known_hits,
            "failed_clause_counts": self.clause_counts,
        }
        cov.update(self.notes)
        ev = {
            "property_id": self.prop,
            "tier": self.tier,
            "seed": self.seed,
            "level": self.level,
            "coverage": cov,
            "assumptions": self.assumptions,
            "wall_s": round(wall, 2),
            "violations": len(self.violations),
        }
        with open(os.path.join(EVIDENCE_DIR, f"{self.prop}.json"), "w") as f:
            json.dump(ev, f, indent=1, default=str)
        for k in self.known:
            if self.known_hits.get(k["id"]):
                print(f"KNOWN-FINDING: property={self.prop} {k['id']}: {k['description']} "
                      f"[{self.known_hits[k['id']]} case(s) this run, e.g. {self.known_example[k['id']]}]")
        if self.drift:
            print(f"DRIFT property={self.prop} cases={self.drift} (implementation differs from the "
                  f"implementation-shaped spec; not a violation) e.g. {json.dumps(self.drift_samples[:1])[:300]}")
        seen = set()
        for v in self.violations:
            if v["path"] in seen or len(seen) >= 5:
                continue
            seen.add(v["path"])
            print(f"VIOLATION property={self.prop} replay={v['path']}  clauses={','.join(v['clauses'])} {v['what']}")
        shutil.rmtree(self.workdir, ignore_errors=True)
        if self.clause_counts:
            print("failed clauses:", json.dumps(self.clause_counts))
        print(f"{self.prop} {self.tier}: states={self.states} transitions={self.transitions} traces={self.traces} "
              f"nontrivial={cov['distinct_nontrivial']} drift={self.drift} violations={len(self.violations)} "
              f"wall={wall:.1f}s")
        return 1 if self.violations else 0


def replay(prop: str, path: str, ctx: "Ctx") -> int:
    """./harness/check <ID> --replay <file>: judge one stored failing case again. Where the property's module knows how
    (REPLAY = (trace module, cfg, function that re-runs the REAL code on the stored input)), the input is run through the
    current /repo first; otherwise the stored observation is judged as it is. Exit 1 if it still fails, 0 if not."""
    import importlib
    from . import batch
    with open(path) as f:
        stored = json.load(f)
    mod = importlib.import_module(f"props.{prop.lower()}")
    spec = getattr(mod, "REPLAY", None)
    case = stored["case"]
    print(f"replaying {path}: stored clauses {stored.get('clauses')}")
    code = 0
    try:
        if spec is None:
            print("this property's failing cases are whole pipeline runs; the stored case is:")
            print(json.dumps(case)[:2000])
            code = 1
        else:
            module, cfg, rerun, strip_keys = spec
            rec = rerun(case) if rerun else case
            payload = {k: v for k, v in rec.items() if k not in strip_keys}
            verdicts, _ = batch.validate(module, cfg, ctx.workdir, [payload])
            failed, drift = verdicts.get(0, ([], []))
            print(f"re-run on {REPO}: failed clauses {failed} drift {drift}")
            if failed:
                print(f"VIOLATION property={prop} replay={path}  clauses={','.join(failed)}")
                code = 1
    finally:
        shutil.rmtree(ctx.workdir, ignore_errors=True)
    return code


def main_wrapper(prop: str, fn: Callable[[Ctx], None], level: str = "model_checking"):
    import argparse
    ap = argparse.ArgumentParser()
    ap.add_argument("--tier", default=os.environ.get("VERIF_TIER", "quick"), choices=["quick", "thorough"])
    ap.add_argument("--replay", default=None)
    a = ap.parse_args(sys.argv[2:])
    seed = int(os.environ.get("VERIF_SEED", "0") or 0)
    ctx = Ctx(prop, a.tier, seed, level)
    ctx.replay = a.replay
    if a.replay:
        sys.exit(replay(prop, a.replay, ctx))
    try:
        fn(ctx)
        code = ctx.finish()
    except Exception:
        traceback.print_exc()
        print(f"MACHINERY-ERROR property={prop}")
        shutil.rmtree(ctx.workdir, ignore_errors=True)
        code = 2
    sys.exit(code)
