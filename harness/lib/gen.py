"""Generators of label data and drivers of the real COMA components (no COMA logic is re-implemented here:
only input construction and observation)."""
from __future__ import annotations

import random
from typing import Dict, List, Optional, Tuple

from . import repo  # noqa: F401


# ------------------------------------------------------------------------------------------ label data
def make_reference(rng: random.Random, n: int, min_gap: int = 600, mean_gap: int = 9000, repeats: bool = False,
                   lattice: int = 0) -> List[int]:
    x = rng.randint(1000, 20000)
    out = []
    k = 0
    while k < n:
        out.append(x)
        k += 1
        gap = min_gap + int(rng.expovariate(1.0 / max(1, mean_gap - min_gap)))
        x += gap
        if repeats and rng.random() < 0.08 and k + 6 < n:   # tandem repeat block
            unit = [min_gap + rng.randint(0, 4000) for _ in range(rng.randint(2, 4))]
            for _ in range(rng.randint(2, 3)):
                for g in unit:
                    if k < n:
                        out.append(x)
                        x += g
                        k += 1
    if lattice:
        out = sorted({(v // lattice) * lattice for v in out})
    return out


def cut_query(rng: random.Random, ref: List[int], w0: int, w1: int, sigma: float = 0., stretch: float = 1.,
              drop: float = 0., extra: float = 0., indel: Optional[Tuple[int, int]] = None, offset: int = 0,
              tail: int = 0) -> Tuple[List[int], List[Tuple[int, int]]]:
    """query coordinates (forward orientation, untrimmed: first label at `offset`) cut from ref[w0:w1];
    returns (coords, truth) with truth = [(ref label number, query label number)] for kept labels"""
    base = ref[w0]
    xs = []
    truth_r = []
    shift = 0
    for i in range(w0, w1):
        if indel and i == indel[0]:
            shift += indel[1]
        if rng.random() < drop and i not in (w0, w1 - 1):
            continue
        v = (ref[i] - base) * stretch + shift + (rng.gauss(0, sigma) if sigma else 0)
        xs.append((int(round(v)), i + 1))
        if rng.random() < extra:
            xs.append((int(round(v)) + rng.randint(200, 2500), 0))
    xs.sort()
    m = xs[0][0]
    coords = [v - m + offset for v, _ in xs]
    truth = [(r, k + 1) for k, (_, r) in enumerate(xs) if r]
    return coords, truth


def mirror_query(coords: List[int], length: Optional[int] = None) -> List[int]:
    """coordinates of the same molecule read from the other end (labels keep their spacing)"""
    top = coords[-1] + coords[0] if length is None else length
    return sorted(top - c for c in coords)


# ------------------------------------------------------------------------------------------ real components
class Params:
    def __init__(self, sp=1000, dp=1.0, su=-250, d=1500, ms=1000, bs=1200, sj=1.0, ss=0):
        self.sp, self.dp, self.su, self.d, self.ms, self.bs, self.sj, self.ss = sp, dp, su, d, ms, bs, sj, ss

    def as_dict(self):
        return dict(sp=self.sp, dp=self.dp, su=self.su, d=self.d, ms=self.ms, bs=self.bs, sj=self.sj, ss=self.ss)


def real_aligner(p: Params):
    """the same wiring as WorkflowCoordinatorFactory.create"""
    from src.alignment.aligner import AlignerEngine, Aligner
    from src.alignment.alignment_position_scorer import AlignmentPositionScorer
    from src.alignment.segment_chainer import SegmentChainer, SequentialityScorer
    from src.alignment.segment_with_resolved_conflicts import AlignmentSegmentConflictResolver
    from src.alignment.segments_factory import AlignmentSegmentsFactory
    chainer = SegmentChainer(SequentialityScorer(p.sj, p.ss))
    resolver = AlignmentSegmentConflictResolver(chainer)
    return Aligner(AlignmentPositionScorer(p.sp, p.dp, p.su), AlignmentSegmentsFactory(p.ms, p.bs),
                   AlignerEngine(p.d), resolver), chainer, resolver


def optical_maps(ref: List[int], qry: List[int], ref_len: Optional[int] = None, qid: int = 7, rid: int = 1,
                 shift: int = 0, qlen: Optional[int] = None):
    from src.correlation.optical_map import OpticalMap
    r = OpticalMap(rid, ref_len if ref_len is not None else ref[-1] + 1000, list(ref))
    q = OpticalMap(qid, qlen if qlen is not None else qry[-1] - qry[0] + 1, list(qry), shift=shift)
    return r, q


def ladder_peaks(rng: random.Random, ref: List[int], qry_fed: List[int], truth_pairs: List[Tuple[int, int]],
                 k: int, jitter: int = 300) -> List[int]:
    """diagonals of individual label pairs +- jitter: peak = x_ref - x_query(as fed to the aligner)"""
    peaks = []
    for _ in range(k):
        r, q = rng.choice(truth_pairs)
        peaks.append(ref[r - 1] - qry_fed[q - 1] + rng.randint(-jitter, jitter))
    return peaks


def pos_record(p, scale: int = 1) -> Dict:
    """one scored alignment position of the real code in spec terms (scores scaled to integers)"""
    from src.alignment.alignment_position import ScoredAlignedPair, ScoredNotAlignedPosition, \
        NotAlignedReferencePosition
    sc = p.score * scale
    isc = int(round(sc))
    if abs(sc - isc) > 1e-6:
        isc = 10 ** 9
    if isinstance(p, ScoredAlignedPair):
        return {"k": "P", "r": [p.reference.siteId, int(p.reference.position)],
                "q": [p.query.siteId, int(p.query.position)], "sh": int(p.queryShift), "sc": isc}
    if isinstance(p, ScoredNotAlignedPosition):
        if isinstance(p.position, NotAlignedReferencePosition):
            return {"k": "R", "r": [p.position.reference.siteId, int(p.position.reference.position)], "q": [0, 0],
                    "sh": 0, "sc": isc}
        return {"k": "Q", "r": [0, 0], "q": [p.position.query.siteId, int(p.position.query.position)], "sh": 0,
                "sc": isc}
    return {"k": "?", "r": [0, 0], "q": [0, 0], "sh": 0, "sc": isc}


def tandem_case(rng: random.Random):
    """a short tandem-repeat array with one unit more / less in the query, plus label noise inside the array:
    the segments seeded on the diagonals of the two flanks overlap on the (periodic) array labels
    -> dense conflicts cut strictly inside the overlap. Returns (ref, query coords, truth, peaks_fwd)"""
    x = rng.randint(2000, 9000)
    ref = []
    nl, nr = rng.randint(8, 18), rng.randint(8, 18)
    for _ in range(nl):
        ref.append(x)
        x += rng.randint(4000, 14000)
    unit = [rng.randint(1400, 3200) for _ in range(rng.choice([2, 2, 3]))]
    units = rng.randint(2, 4)
    arr0 = len(ref)
    for _ in range(units):
        for g in unit:
            ref.append(x)
            x += g
    arr1 = len(ref)
    for _ in range(nr):
        ref.append(x)
        x += rng.randint(4000, 14000)
    ulen = sum(unit)
    delta = rng.choice([-1, 1, 1])
    if units + delta < 1:
        delta = 1
    # query: left flank + (units + delta) units + right flank
    wl, wr = rng.randint(5, nl), rng.randint(5, nr)
    q = [(ref[i], i + 1) for i in range(nl - wl, arr0)]
    y = ref[arr0]
    for _ in range(units + delta):
        for g in unit:
            q.append((y, 0))
            y += g
    for i in range(arr1, arr1 + wr):
        q.append((ref[i] + delta * ulen, i + 1))
    # noise inside / near the array
    out = []
    for (v, r) in q:
        inarr = ref[arr0] - 3000 <= v <= ref[arr1 - 1] + delta * ulen + 3000
        if inarr and rng.random() < 0.12 and r == 0:
            continue                                   # missing label
        v2 = v + (rng.choice([-1, 1]) * rng.randint(250, 650) if inarr and rng.random() < 0.2 else int(rng.gauss(0, 60)))
        out.append((v2, r))
        if inarr and rng.random() < 0.12:
            out.append((v2 + rng.randint(300, 1100), 0))   # false-positive label
    out.sort()
    base = out[0][0]
    coords = [v - base for v, _ in out]
    truth = [(r, k + 1) for k, (_, r) in enumerate(out) if r]
    left = [t for t in truth if t[0] <= arr0] or truth[:1]
    right = [t for t in truth if t[0] > arr1] or truth[-1:]
    return ref, coords, truth, left, right


def cluster_deletion_case(rng: random.Random):
    """a deletion of d1 + d2 in the molecule that removes two reference labels, one d1 behind the left flank label and one
    d2 before the SECOND label after the deletion, and seeds on the three diagonals lag, lag + d1, lag + d1 + d2: the
    seed in the middle gives a short spurious segment that shares a query label with each neighbour (it is cut down to
    one pair by the left neighbour and then compared with the right one)"""
    nref = rng.randint(30, 50)
    base = make_reference(rng, nref, min_gap=6000, mean_gap=rng.choice([11000, 13000]))
    i = rng.randint(8, nref - 10)
    a, g = rng.randint(3500, 6000), rng.randint(2500, 4500)
    d1 = rng.randint(2500, 3500)
    d2 = rng.randint(g + 800, g + 2500)
    L = base[i]
    E1, E2 = L + d1, L + a + d1 + g
    S1 = L + a + d1 + d2
    S2 = S1 + g
    tail = [v - base[i + 1] + S2 + rng.randint(9000, 14000) for v in base[i + 1:]]
    ref = base[:i + 1] + [E1, E2, S1, S2] + tail
    if sorted(ref) != ref or any(y - x < 1000 for x, y in zip(ref, ref[1:])):
        return ladder_case(rng)
    # the molecule: a window around the deletion, without E1 / E2, the part behind the deletion moved left by d1 + d2
    w0 = rng.randint(max(0, i - 16), i - 6)
    w1 = min(len(ref), i + 5 + rng.randint(8, 18))
    xs = []
    for k in range(w0, w1):
        if ref[k] in (E1, E2):
            continue
        v = ref[k] - (d1 + d2 if ref[k] >= S1 else 0)
        xs.append((v - ref[w0] + int(rng.gauss(0, rng.choice([0, 0, 40]))), k + 1))
    xs.sort()
    qry = [v - xs[0][0] for v, _ in xs]
    truth = [(r, k + 1) for k, (_, r) in enumerate(xs)]
    rev = rng.random() < 0.7
    qlen = qry[-1] + 1
    n = len(qry)
    if rev:
        stored = sorted((qlen - 1) - c for c in qry)
        truth = [(r, n + 1 - q) for r, q in truth]
        fed = {k + 1: (qlen - 1) - stored[k] for k in range(n)}
    else:
        stored = qry
        fed = {k + 1: qry[k] for k in range(n)}
    lag = ref[w0] - (xs[0][0] - xs[0][0]) - 0
    lag = ref[truth[0][0] - 1] - fed[truth[0][1]] if not rev else None
    left = [t for t in truth if ref[t[0] - 1] <= L]
    r0, q0 = rng.choice(left)
    lagA = ref[r0 - 1] - fed[q0]
    peaks = [lagA + rng.randint(-60, 60), lagA + d1 + rng.randint(-60, 60), lagA + d1 + d2 + rng.randint(-60, 60)]
    rng.shuffle(peaks)
    params = Params(sp=1000, dp=1.0, su=-250, d=1500, ms=1000, bs=1200, sj=rng.choice([1.0, 1.0, 0.5]),
                    ss=rng.choice([0, 0, 1]))
    return dict(ref=ref, qry=stored, rev=rev, peaks=peaks, params=params, truth=truth, qlen=qlen)


def double_indel_case(rng: random.Random):
    """two small indels (2-6 kb each, larger than maxDistance) with only one or two labels between them, a seed on each
    of the three diagonals: the middle segment holds one or two pairs and is trimmed by both neighbours"""
    nref = rng.randint(30, 60)
    ref = make_reference(rng, nref, min_gap=2000, mean_gap=rng.choice([7000, 9000]))
    wlen = rng.randint(14, min(34, nref - 2))
    w0 = rng.randint(0, nref - wlen)
    i1 = rng.randint(w0 + 4, w0 + wlen - 7)
    # a cluster of close labels around the two break points (neighbouring diagonals then pair the same labels)
    for j in range(max(w0 + 1, i1 - 2), min(w0 + wlen - 1, i1 + 4)):
        if rng.random() < 0.6:
            gap = rng.randint(1200, 3800)
            delta = (ref[j] - ref[j - 1]) - gap
            ref = ref[:j] + [v - delta for v in ref[j:]]
    i2 = i1 + rng.choice([1, 1, 2])
    sign = rng.choice([-1, 1])
    d1, d2 = sign * rng.randint(2000, 6000), sign * rng.randint(2000, 6000)
    xs = []
    shift = 0
    for i in range(w0, w0 + wlen):
        if i == i1:
            shift += d1
        if i == i2:
            shift += d2
        xs.append((ref[i] - ref[w0] + shift + int(rng.gauss(0, rng.choice([0, 50]))), i + 1))
    xs.sort()
    if any(b[0] - a[0] < 300 for a, b in zip(xs, xs[1:])):
        return ladder_case(rng)
    qry = [v - xs[0][0] for v, _ in xs]
    truth = [(r, k + 1) for k, (_, r) in enumerate(xs)]
    rev = rng.random() < 0.6
    qlen = qry[-1] + 1
    n = len(qry)
    if rev:
        stored = sorted((qlen - 1) - c for c in qry)
        truth = [(r, n + 1 - q) for r, q in truth]
        fed = {k + 1: (qlen - 1) - stored[k] for k in range(n)}
    else:
        stored = qry
        fed = {k + 1: qry[k] for k in range(n)}
    groups = [[t for t in truth if t[0] <= i1], [t for t in truth if i1 < t[0] <= i2], [t for t in truth if t[0] > i2]]
    peaks = []
    for grp in groups:
        if grp:
            r, q = rng.choice(grp)
            peaks.append(ref[r - 1] - fed[q] + rng.randint(-80, 80))
    rng.shuffle(peaks)
    params = Params(sp=1000, dp=rng.choice([1.0, 1.0, 0.5]), su=rng.choice([-250, -250, -100]),
                    d=rng.choice([1500, 1500, 1000]), ms=1000, bs=rng.choice([1200, 1200, 2500]),
                    sj=rng.choice([1.0, 1.0, 0.5]), ss=rng.choice([0, 0, 1]))
    return dict(ref=ref, qry=stored, rev=rev, peaks=peaks, params=params, truth=truth, qlen=qlen)


def ladder_case(rng: random.Random):
    """a realistic multi-peak input for Aligner.getSegments / resolveConflicts / align:
    returns dict(ref, qry (forward, trimmed), rev, peaks, params, truth)"""
    if rng.random() < 0.25:
        ref, coords, truth, left, right = tandem_case(rng)
        qry = coords
        rev = rng.random() < 0.5
        qlen = qry[-1] + 1
        n = len(qry)
        if rev:
            stored = sorted((qlen - 1) - c for c in qry)
            truth = [(r, n + 1 - q) for r, q in truth]
            left = [(r, n + 1 - q) for r, q in left]
            right = [(r, n + 1 - q) for r, q in right]
            fed = [(qlen - 1) - stored[k] for k in range(n)]
        else:
            stored = qry
            fed = list(qry)
        peaks = []
        for grp in (left, right):
            r, q = rng.choice(grp)
            peaks.append(ref[r - 1] - fed[q - 1] + rng.randint(-120, 120))
        if rng.random() < 0.5:
            peaks.reverse()
        params = Params(sp=1000, dp=rng.choice([1.0, 1.0, 0.5]), su=rng.choice([-250, -250, -100]),
                        d=rng.choice([1500, 1500, 1000, 2000]), ms=1000, bs=rng.choice([1200, 1200, 2500]),
                        sj=rng.choice([1.0, 1.0, 0.5]), ss=rng.choice([0, 0, 1]))
        return dict(ref=ref, qry=stored, rev=rev, peaks=peaks, params=params, truth=truth, qlen=qlen)
    u0 = rng.random()
    if u0 < 0.1:
        return double_indel_case(rng)
    if u0 < 0.2:
        return cluster_deletion_case(rng)
    nref = rng.randint(25, 60)
    ref = make_reference(rng, nref, min_gap=rng.choice([400, 800, 2000]), mean_gap=rng.choice([5000, 9000, 14000]),
                         repeats=rng.random() < 0.35)
    nref = len(ref)
    wlen = rng.randint(8, min(30, nref - 2))
    w0 = rng.randint(0, nref - wlen)
    style = rng.random()
    indel = None
    small_indel = rng.random() < 0.3
    maxd = rng.choice([500, 1500, 1500, 3000])
    if small_indel:
        # an indel smaller than ~2 maxDistance: the segments seeded on the two diagonals overlap over many labels,
        # some labels pair on one diagonal only -> cuts strictly inside the overlap with asymmetric sub-segments
        indel = (rng.randint(w0 + 3, w0 + wlen - 3), rng.choice([-1, 1]) * rng.randint(int(0.4 * maxd), int(1.7 * maxd)))
        coords, truth = cut_query(rng, ref, w0, w0 + wlen, sigma=rng.choice([0, 60, 120]), stretch=1.0,
                                  drop=rng.choice([0.05, 0.12, 0.2]), extra=rng.choice([0.1, 0.2]), indel=indel)
    else:
        if style < 0.45:
            indel = (rng.randint(w0 + 2, w0 + wlen - 2), rng.choice([-1, 1]) * rng.randint(1500, 40000))
        coords, truth = cut_query(rng, ref, w0, w0 + wlen, sigma=rng.choice([0, 120, 300]),
                                  stretch=rng.choice([1.0, 0.93, 0.96, 1.03, 1.05, 1.08]),
                                  drop=rng.choice([0, 0.08, 0.15]), extra=rng.choice([0, 0.08]), indel=indel)
    qry = [c - coords[0] for c in coords]
    rev = rng.random() < 0.5
    qlen = qry[-1] + 1
    if rev:
        # the molecule is given mirrored; the aligner mirrors it back: fed coordinate of stored label i
        stored = sorted((qlen - 1) - c for c in qry)
        n = len(qry)
        truth = [(r, n + 1 - q) for r, q in truth]
        fed_of_label = {k + 1: (qlen - 1) - stored[k] for k in range(n)}
    else:
        stored = qry
        fed_of_label = {k + 1: qry[k] for k in range(len(qry))}
    fed = [fed_of_label[k + 1] for k in range(len(stored))]
    params = Params(sp=rng.choice([1000, 1000, 600]), dp=rng.choice([1.0, 1.0, 0.5, 2.0]),
                    su=rng.choice([-250, -250, -100, -500]), d=maxd,
                    ms=rng.choice([1000, 1000, 600, 2000]), bs=rng.choice([1200, 1200, 600, 2500]),
                    sj=rng.choice([1.0, 1.0, 0.5, 0.0]), ss=rng.choice([0, 0, 1]))
    k = rng.randint(2, 7)
    if small_indel:
        before = [t for t in truth if t[0] <= indel[0]] or truth[:1]
        after = [t for t in truth if t[0] > indel[0]] or truth[-1:]
        peaks = []
        for grp in (before, after):
            r, q = rng.choice(grp)
            peaks.append(ref[r - 1] - fed[q - 1] + rng.randint(-100, 100))
        if rng.random() < 0.3:
            peaks.append((peaks[0] + peaks[1]) // 2)
        if rng.random() < 0.5:
            peaks.reverse()
    elif rng.random() < 0.5 and len(truth) >= 8:
        # "stretch ladder": seeds on the diagonals of evenly spaced label pairs, so that neighbouring seeds give
        # overlapping segments (real conflicts, cuts strictly inside the overlap)
        step = max(2, len(truth) // k)
        jit = rng.choice([0, 150, 400])
        peaks = []
        for i in range(0, len(truth), step):
            r, q = truth[i]
            peaks.append(ref[r - 1] - fed[q - 1] + rng.randint(-jit, jit))
        if rng.random() < 0.5:
            rng.shuffle(peaks)
    else:
        peaks = ladder_peaks(rng, ref, fed, truth, k, jitter=rng.choice([0, 300, 300, 800]))
    return dict(ref=ref, qry=stored, rev=rev, peaks=peaks, params=params, truth=truth, qlen=qlen)


# ------------------------------------------------------------------------------------------ parallel driving
def _chunk_runner(args):
    fn, seed, n = args
    rng = random.Random(seed)
    return fn(rng, n)


def parallel(fn, seed: int, total: int, chunk: int = 500, procs: int = 14):
    """run fn(rng, n) -> list in worker processes with independent, reproducible rngs; concatenates results in
    chunk order (so the outcome depends only on (seed, total, chunk))."""
    import multiprocessing as mp
    jobs = []
    k = 0
    while k * chunk < total:
        jobs.append((fn, seed * 1000003 + k, min(chunk, total - k * chunk)))
        k += 1
    if len(jobs) <= 1 or procs <= 1:
        out = []
        for j in jobs:
            out.extend(_chunk_runner(j))
        return out
    ctx = mp.get_context("fork")
    with ctx.Pool(min(procs, len(jobs))) as pool:
        res = pool.map(_chunk_runner, jobs)
    out = []
    for r in res:
        out.extend(r)
    return out
