"""Run TLC / SANY and parse what they print.

Only machinery lives here: nothing in this file knows about COMA.
"""
from __future__ import annotations

import os
import re
import shutil
import subprocess
import time
import uuid
from dataclasses import dataclass, field
from typing import Any, Dict, List, Optional

SPEC_DIR = os.path.join(os.path.dirname(os.path.dirname(os.path.dirname(os.path.abspath(__file__)))), "spec")
JAR = "/opt/veriftools/tla/tla2tools.jar:/opt/veriftools/tla/CommunityModules-deps.jar"


class MachineryError(Exception):
    """TLC crashed, a trace file was unreadable, counts do not add up ... (exit 2)."""


@dataclass
class TlcResult:
    exit_code: int
    output: str
    generated: int = 0
    distinct: int = 0
    depth: int = 0
    wall_s: float = 0.0
    prints: List[Any] = field(default_factory=list)
    invariant_violated: Optional[str] = None
    error: Optional[str] = None
    coverage: Dict[str, int] = field(default_factory=dict)

    @property
    def ok(self) -> bool:
        return self.exit_code == 0 and self.error is None and self.invariant_violated is None


# ---------------------------------------------------------------- TLA+ value parser
class _P:
    """Parser for the TLA+ values TLC prints with PrintT (tuples, records, sets, ints, strings, booleans)."""

    def __init__(self, s: str):
        self.s = s
        self.i = 0

    def ws(self):
        while self.i < len(self.s) and self.s[self.i] in " \t\r\n":
            self.i += 1

    def peek(self, k=1):
        return self.s[self.i:self.i + k]

    def expect(self, tok):
        self.ws()
        if not self.s.startswith(tok, self.i):
            raise ValueError(f"expected {tok!r} at {self.i}: {self.s[self.i:self.i + 40]!r}")
        self.i += len(tok)

    def value(self):
        self.ws()
        c = self.peek()
        if self.peek(2) == "<<":
            self.i += 2
            out = []
            self.ws()
            if self.peek(2) == ">>":
                self.i += 2
                return out
            while True:
                out.append(self.value())
                self.ws()
                if self.peek(2) == ">>":
                    self.i += 2
                    return out
                self.expect(",")
        if c == "{":
            self.i += 1
            out = []
            self.ws()
            if self.peek() == "}":
                self.i += 1
                return {"$set": out}
            while True:
                out.append(self.value())
                self.ws()
                if self.peek() == "}":
                    self.i += 1
                    return {"$set": out}
                self.expect(",")
        if c == "[":
            self.i += 1
            out = {}
            self.ws()
            if self.peek() == "]":
                self.i += 1
                return out
            while True:
                self.ws()
                m = re.compile(r"[A-Za-z_0-9]+").match(self.s, self.i)
                if not m:
                    raise ValueError(f"field name at {self.i}")
                name = m.group(0)
                self.i = m.end()
                self.expect("|->")
                out[name] = self.value()
                self.ws()
                if self.peek() == "]":
                    self.i += 1
                    return out
                self.expect(",")
        if c == '"':
            j = self.i + 1
            buf = []
            while self.s[j] != '"':
                if self.s[j] == "\\":
                    j += 1
                buf.append(self.s[j])
                j += 1
            self.i = j + 1
            return "".join(buf)
        m = re.compile(r"-?\d+").match(self.s, self.i)
        if m:
            self.i = m.end()
            return int(m.group(0))
        m = re.compile(r"TRUE|FALSE").match(self.s, self.i)
        if m:
            self.i = m.end()
            return m.group(0) == "TRUE"
        m = re.compile(r"[A-Za-z_][A-Za-z_0-9]*").match(self.s, self.i)
        if m:  # model value
            self.i = m.end()
            return m.group(0)
        raise ValueError(f"cannot parse at {self.i}: {self.s[self.i:self.i + 40]!r}")


def parse_tla_value(s: str):
    p = _P(s)
    v = p.value()
    return v


def as_set(v) -> list:
    if isinstance(v, dict) and "$set" in v:
        return v["$set"]
    return list(v)


def extract_prints(out: str, tag: str = "V") -> List[Any]:
    """Find every printed tuple that starts with <<"tag", ...>> by bracket matching.

    16 TLC workers interleave *lines* of different PrintT calls only at line granularity when the value is
    pretty-printed over several lines; we therefore print with ToString (single line) in the specs and
    this function handles both forms for robustness.
    """
    res = []
    # specs print verdicts with PrintT(ToString(<<...>>)): one quoted, escaped line per verdict (atomic)
    lines = []
    for ln in out.splitlines():
        if ln.startswith('"<<') and ln.endswith('>>"'):
            ln = ln[1:-1].replace('\\"', '"').replace('\\\\', '\\')
        lines.append(ln)
    out = "\n".join(lines)
    needle = '<<"' + tag + '"'
    needle2 = '<< "' + tag + '"'
    i = 0
    n = len(out)
    while i < n:
        a = out.find(needle, i)
        b = out.find(needle2, i)
        cand = [x for x in (a, b) if x >= 0]
        if not cand:
            break
        st = min(cand)
        # bracket matching over << >> [ ] { } and strings
        depth = 0
        j = st
        in_str = False
        while j < n:
            ch = out[j]
            if in_str:
                if ch == "\\":
                    j += 1
                elif ch == '"':
                    in_str = False
            else:
                if ch == '"':
                    in_str = True
                elif out.startswith("<<", j):
                    depth += 1
                    j += 1
                elif out.startswith(">>", j):
                    depth -= 1
                    j += 1
                    if depth == 0:
                        j += 1
                        break
            j += 1
        txt = out[st:j]
        try:
            res.append(parse_tla_value(txt))
        except Exception as e:  # pragma: no cover - machinery
            raise MachineryError(f"cannot parse TLC print: {txt[:200]!r}: {e}")
        i = j
    return res


_RE_STATES = re.compile(r"(\d+) states generated, (\d+) distinct states found, (\d+) states left on queue")
_RE_DEPTH = re.compile(r"The depth of the complete state graph search is (\d+)")
_RE_INV = re.compile(r"Error: Invariant (\S+) is violated")
_RE_COV = re.compile(r"<(\w+) line \d+, col \d+ to line \d+, col \d+ of module (\w+)>: (\d+):(\d+)")


def run_tlc(module: str, cfg: str, workdir: str, env: Optional[Dict[str, str]] = None, workers: int = 16,
            simulate: Optional[str] = None, depth: Optional[int] = None, timeout: int = 3600,
            coverage: bool = False, tag: str = "V", heap_gb: int = 8, extra: Optional[List[str]] = None,
            spec_dir: str = SPEC_DIR, allow_violation: bool = False) -> TlcResult:
    """Run TLC on spec/<module>.tla with spec/<cfg>. Metadata goes to workdir/meta-<module>-<n> (removed)."""
    meta = os.path.join(workdir, f"meta-{module}-{os.getpid()}-{uuid.uuid4().hex[:10]}")
    os.makedirs(meta, exist_ok=True)
    cmd = ["java", "-XX:+UseParallelGC", f"-Xmx{heap_gb}g", "-Xss512m", "-cp", JAR, "tlc2.TLC",
           "-workers", str(workers), "-metadir", meta, "-noGenerateSpecTE",
           "-config", os.path.join(spec_dir, cfg)]
    if coverage:
        cmd += ["-coverage", "1"]
    if simulate:
        cmd += ["-simulate", simulate]
    if depth:
        cmd += ["-depth", str(depth)]
    if extra:
        cmd += extra
    cmd += [os.path.join(spec_dir, module + ".tla")]
    e = dict(os.environ)
    if env:
        e.update({k: str(v) for k, v in env.items()})
    t0 = time.time()
    try:
        p = subprocess.run(cmd, cwd=spec_dir, env=e, stdout=subprocess.PIPE, stderr=subprocess.STDOUT,
                           text=True, timeout=timeout)
        out, code = p.stdout, p.returncode
    except subprocess.TimeoutExpired as te:
        out = (te.stdout or b"").decode() if isinstance(te.stdout, bytes) else (te.stdout or "")
        code = 124
    finally:
        shutil.rmtree(meta, ignore_errors=True)
    r = TlcResult(code, out, wall_s=time.time() - t0)
    ms = _RE_STATES.findall(out)
    if ms:
        r.generated, r.distinct = int(ms[-1][0]), int(ms[-1][1])
    if simulate and not ms:
        m2 = re.findall(r"The number of states generated: (\d+)", out)
        if m2:
            r.generated = r.distinct = int(m2[-1])
    md = _RE_DEPTH.findall(out)
    if md:
        r.depth = int(md[-1])
    mi = _RE_INV.search(out)
    if mi:
        r.invariant_violated = mi.group(1)
    elif code != 0:
        errs = [ln for ln in out.splitlines() if ln.startswith("Error:")]
        r.error = "; ".join(errs[:3]) or f"TLC exit {code}"
    if coverage:
        for m in _RE_COV.finditer(out):
            r.coverage[m.group(1)] = r.coverage.get(m.group(1), 0) + int(m.group(3))
    r.prints = extract_prints(out, tag)
    if not allow_violation and not r.ok:
        raise MachineryError(f"TLC failed on {module}/{cfg}: inv={r.invariant_violated} err={r.error}\n"
                             + "\n".join(out.splitlines()[-40:]))
    return r


def sany(module_path: str) -> bool:
    p = subprocess.run(["java", "-cp", JAR, "tla2sany.SANY", module_path], cwd=os.path.dirname(module_path),
                       stdout=subprocess.PIPE, stderr=subprocess.STDOUT, text=True)
    return p.returncode == 0 and "Semantic errors" not in p.stdout and "***Parse Error***" not in p.stdout
