"""Running the REAL COMA pipeline (Program.run in process, or the CLI with the real process pool) on generated
CMAP files and observing it from outside: CMAP text written by the harness, XMAP text parsed by an independent
parser (never src/parsers), and a recorder Extension that lives here (like sv/segment_indels.SegmentsCatcher)."""
from __future__ import annotations

import json
import os
import re
import subprocess
import sys
from typing import Dict, List, Optional, Tuple

from . import repo  # noqa: F401
from .repo import REPO

PY = "/venv/bin/python"


# ------------------------------------------------------------------------------------------ CMAP text
def fmt1(x_deci: int) -> str:
    """deci-bp integer -> text with one decimal"""
    sign = "-" if x_deci < 0 else ""
    a = abs(x_deci)
    return f"{sign}{a // 10}.{a % 10}"


def write_cmap(path: str, maps: List[Dict], shuffle_rng=None, extra_columns: bool = True):
    """maps: [{"id": int, "len": deci-bp, "x": [deci-bp, ...]}]; one row per label plus the end-marker row
    (LabelChannel 0, Position = ContigLength). shuffle_rng: reorder all rows."""
    rows = []
    for m in maps:
        n = len(m["x"])
        for i, x in enumerate(m["x"], start=1):
            rows.append((m["id"], m["len"], n, i, 1, x))
        rows.append((m["id"], m["len"], n, n + 1, 0, m["len"]))
    if shuffle_rng is not None:
        shuffle_rng.shuffle(rows)
    with open(path, "w") as f:
        f.write("# CMAP File Version:\t0.1\n# Label Channels:\t1\n# Nickase Recognition Site 1:\tunknown\n")
        f.write(f"# Number of Consensus Maps:\t{len(maps)}\n")
        if extra_columns:
            f.write("#h CMapId\tContigLength\tNumSites\tSiteID\tLabelChannel\tPosition\tStdDev\tCoverage\tOccurrence\n")
            f.write("#f int\tfloat\tint\tint\tint\tfloat\tfloat\tfloat\tfloat\n")
        else:
            f.write("#h CMapId\tContigLength\tNumSites\tSiteID\tLabelChannel\tPosition\n")
            f.write("#f int\tfloat\tint\tint\tint\tfloat\n")
        for (cid, ln, n, sid, ch, x) in rows:
            base = f"{cid}\t{fmt1(ln)}\t{n}\t{sid}\t{ch}\t{fmt1(x)}"
            f.write(base + ("\t0.0\t1.0\t1.0\n" if extra_columns else "\n"))


# Query ids beyond 2^53 are valid CMAP ids (int64) but do not fit TLC's 32-bit integers: when QID_BASE is set, the
# query CMAP is written with id + QID_BASE and every place that observes a query id subtracts it again (equality and
# order of ids, all the properties talk about, are translation invariant).
QID_BASE = 0


def qid(v) -> int:
    return int(v) - QID_BASE


# ------------------------------------------------------------------------------------------ XMAP text
_PAIR = re.compile(r"\((\d+),(\d+)\)")


def dec_to_int(txt: str, places: int) -> Optional[int]:
    """'123.4' -> 1234 (places=1). A plain decimal with fewer decimals ('123', '123.') or with additional zeros is the
    same number and is accepted (the column is a float column; how many digits are printed is not a property); None when
    the text is not a plain decimal or carries more significant decimals than `places`"""
    m = re.fullmatch(r"(-?)(\d+)(?:\.(\d*))?", txt)
    if not m:
        return None
    frac = m.group(3) or ""
    if len(frac) > places:
        if frac[places:].strip("0"):
            return None
        frac = frac[:places]
    v = int(m.group(2)) * 10 ** places + int(frac.ljust(places, "0") or 0)
    return -v if m.group(1) else v


def parse_xmap(path: str) -> Dict:
    """independent parser: returns {"header_ok": bool, "records": [...], "raw_lines": n}
    each record keeps the raw text fields plus scaled integers"""
    recs = []
    header_ok = False
    cols = None
    with open(path) as f:
        lines = f.read().split("\n")
    if lines and lines[-1] == "":
        lines = lines[:-1]
    nhead = 0
    for ln in lines:
        if ln.startswith("#"):
            nhead += 1
            if ln.startswith("#h"):
                cols = ln.split("\t")[1:]
            continue
        f_ = ln.split("\t")
        if cols is None or len(f_) != len(cols):
            recs.append({"malformed": ln[:200]})
            continue
        d = dict(zip(cols, f_))
        rec = {"malformed": None, "raw": d}
        try:
            rec["id"] = int(d["XmapEntryID"])
            rec["q"] = qid(d["QryContigID"])
            rec["r"] = int(d["RefContigID"])
            rec["qs"] = dec_to_int(d["QryStartPos"], 1)
            rec["qe"] = dec_to_int(d["QryEndPos"], 1)
            rec["rs"] = dec_to_int(d["RefStartPos"], 1)
            rec["re"] = dec_to_int(d["RefEndPos"], 1)
            rec["ori"] = d["Orientation"]
            rec["conf"] = dec_to_int(d["Confidence"], 2)
            rec["hit"] = d["HitEnum"]
            rec["qlen"] = dec_to_int(d["QryLen"], 1)
            rec["rlen"] = dec_to_int(d["RefLen"], 1)
            rec["rest"] = d.get("AlignedRest", "")
            rec["chan"] = d.get("LabelChannel", "")
            al = d["Alignment"]
            pairs = [[int(a), int(b)] for a, b in _PAIR.findall(al)]
            rec["pairs"] = pairs
            rec["pairs_text_ok"] = "".join(f"({a},{b})" for a, b in pairs) == al
            if None in (rec["qs"], rec["qe"], rec["rs"], rec["re"], rec["conf"], rec["qlen"], rec["rlen"]):
                rec["malformed"] = "number format"
        except Exception as e:
            rec["malformed"] = f"{type(e).__name__}: {e}"
        recs.append(rec)
    header_ok = cols is not None and nhead >= 2
    return {"header_ok": header_ok, "records": recs, "cols": cols or []}


def body_digest(path: str) -> str:
    """digest of an XMAP file without the '# coma ...' argument echo, host name and absolute input paths"""
    import hashlib
    h = hashlib.sha256()
    with open(path, "rb") as f:
        for ln in f:
            if ln.startswith(b"# coma ") or ln.startswith(b"# hostname=") or ln.startswith(b"# Reference Maps From:") \
                    or ln.startswith(b"# Query Maps From:"):
                continue
            h.update(ln)
    return h.hexdigest()


# ------------------------------------------------------------------------------------------ running COMA
def arg_list(ref: str, qry: str, out: str, mode: str = "best", cpus: int = 1, extra: Optional[Dict] = None,
             qids=None, rids=None) -> List[str]:
    a = ["-r", ref, "-q", qry, "-o", out, "-c", str(cpus), "-pb"]
    if mode != "single":
        a += ["-oM", mode]
    for k, v in (extra or {}).items():
        a += [k, str(v)]
    if qids:
        a += ["-qId"] + [str(int(x) + QID_BASE) for x in qids]
    if rids:
        a += ["-rId"] + [str(x) for x in rids]
    return a


def run_cli(args: List[str], timeout: int = 600, cwd: Optional[str] = None, hashseed=None) -> Tuple[int, str]:
    """hashseed: PYTHONHASHSEED of the child interpreter ("random" = what a user's shell gives); the harness itself runs
    with 0, so without it every CLI run would iterate sets / dicts of strings in the same order"""
    env = dict(os.environ)
    env["PYTHONPATH"] = REPO
    if hashseed is not None:
        env["PYTHONHASHSEED"] = str(hashseed)
    env.pop("COMA_VERIF", None)
    p = subprocess.run([PY, "-m", "src.program"] + args, cwd=cwd or REPO, env=env, stdout=subprocess.PIPE,
                       stderr=subprocess.STDOUT, text=True, timeout=timeout)
    return p.returncode, p.stdout[-3000:]


def run_cli_to_stdout(args: List[str], capture_path: str, via: str = "pipe", timeout: int = 600) -> Tuple[int, str]:
    """the CLI without -o ("Stdout is used if omitted"): stdout is a pipe (via="pipe": what `coma ... | tool` gives) or a
    regular file the shell redirected it to (via="file"); the captured text ends up in capture_path either way.
    args: an arg_list(...) result; its -o pair is removed."""
    a = list(args)
    if "-o" in a:
        k = a.index("-o")
        del a[k:k + 2]
    env = dict(os.environ)
    env["PYTHONPATH"] = REPO
    env.pop("COMA_VERIF", None)
    if via == "pipe":
        p = subprocess.run([PY, "-m", "src.program"] + a, cwd=REPO, env=env, stdout=subprocess.PIPE,
                           stderr=subprocess.PIPE, text=True, timeout=timeout)
        with open(capture_path, "w") as f:
            f.write(p.stdout)
    else:
        with open(capture_path, "w") as f:
            p = subprocess.run([PY, "-m", "src.program"] + a, cwd=REPO, env=env, stdout=f,
                               stderr=subprocess.PIPE, text=True, timeout=timeout)
    return p.returncode, (p.stderr or "")[-3000:]


_sequential_installed = False
_MAP_NAMES = ("p_imap", "p_uimap", "p_map", "p_umap")


def install_sequential_map():
    """in-process runs: rebind whatever p_tqdm map function the coordinator imported to a sequential map (a rebinding
    in the harness process, not in /repo; a sequential map is one admissible schedule of any of them); the real pool
    is used by run_cli and by run_inprocess(real_pool=True)"""
    global _sequential_installed
    import src.workflow_coordinator as wc
    if not _sequential_installed:
        wc._verif_real_maps = {n: getattr(wc, n) for n in _MAP_NAMES if hasattr(wc, n)}
        _sequential_installed = True
    for n in wc._verif_real_maps:
        if n in ("p_map", "p_umap"):
            setattr(wc, n, lambda f, it, **kw: list(map(f, it)))
        else:
            setattr(wc, n, lambda f, it, **kw: map(f, it))


def restore_real_pool():
    import src.workflow_coordinator as wc
    if _sequential_installed:
        for n, fn in wc._verif_real_maps.items():
            setattr(wc, n, fn)


class SingleModeArgs:
    """Args.parse refuses -oM single (choices), but the factory supports it: build the NamedTuple directly"""


def make_args(argv: List[str], single: bool = False):
    from src.args import Args
    a = Args.parse(argv)
    if single:
        a = a._replace(outputMode="single") if hasattr(a, "_replace") else a
        if not hasattr(a, "_replace"):
            a.outputMode = "single"
    return a


def run_inprocess(argv: List[str], extensions=None, single: bool = False, real_pool: bool = False):
    """Program(args, extensions).run(); returns (status, result or exception text)"""
    from src.program import Program
    if real_pool:
        restore_real_pool()
    else:
        install_sequential_map()
    args = make_args(argv, single)
    try:
        prog = Program(args, extensions or [])
        res = prog.run()
        return "ok", res
    except Exception as e:  # any exception is an abort of the run (C07)
        import traceback
        try:
            if args.outputFile is not sys.stdout and not args.outputFile.closed:
                args.outputFile.close()
        except Exception:
            pass
        return "exc:" + type(e).__name__, traceback.format_exc()[-1500:]


def output_files(out: str, mode: str) -> Dict[str, str]:
    base, ext = os.path.splitext(out)
    files = {"main": out}
    if mode in ("separate", "joined"):
        files["_1"] = f"{base}_1{ext}"
    if mode == "all":
        files["_1"] = f"{base}_1{ext}"
        files["_2"] = f"{base}_2{ext}"
    return files


# ------------------------------------------------------------------------------------------ recorder extension
_SEQ = 0   # per-process sequence number (module global: dill re-pickles extension instances per task)


def _emit(path_prefix: str, rec: Dict):
    global _SEQ
    _SEQ += 1
    rec["pid"] = os.getpid()
    rec["seq"] = _SEQ
    with open(f"{path_prefix}.{os.getpid()}.ndjson", "a") as f:
        f.write(json.dumps(rec, separators=(",", ":")) + "\n")


def make_recorders(path_prefix: str):
    """extensions that record, inside the worker, the seeds and the candidates of every task"""
    from src.extensions.extension import Extension
    from src.extensions.messages import InitialAlignmentMessage, MultipleAlignmentResultRowsMessage, \
        CorrelationResultMessage, AlignmentResultRowMessage

    class SeedRecorder(Extension):
        messageType = InitialAlignmentMessage

        def __init__(self, prefix):
            self.prefix = prefix

        def handle(self, message):
            ia = message.data
            _emit(self.prefix, {"ev": "Primary", "task": [qid(ia.query.moleculeId), int(ia.query.shift),
                                                           len(ia.query.positions)],
                                "ref": int(ia.reference.moleculeId), "rev": bool(ia.reverseStrand),
                                "peaks": [[int(p.position), float(p.score), float(p.height)] for p in ia.peaks]})

    class RefineRecorder(Extension):
        messageType = CorrelationResultMessage

        def __init__(self, prefix):
            self.prefix = prefix

        def handle(self, message):
            ia, ra = message.initialAlignment, message.refinedAlignment
            _emit(self.prefix, {"ev": "Refine", "task": [qid(ia.query.moleculeId), int(ia.query.shift),
                                                          len(ia.query.positions)],
                                "ref": int(ia.reference.moleculeId), "rev": bool(ia.reverseStrand),
                                "start": int(ra.correlationStart), "index": int(message.index),
                                "peaks": [[int(p.position), float(p.height)] for p in ra.peaks]})

    class RowRecorder(Extension):
        messageType = AlignmentResultRowMessage

        def __init__(self, prefix):
            self.prefix = prefix

        def handle(self, message):
            row = message.alignment
            _emit(self.prefix, {"ev": "Row", "task": [qid(message.query.moleculeId), int(message.query.shift),
                                                       len(message.query.positions)],
                                "ref": int(message.reference.moleculeId), "rev": bool(row.reverseStrand),
                                "index": int(message.index), "conf": float(row.confidence),
                                "npairs": len(row.alignedPairs)})

    class CandidateRecorder(Extension):
        messageType = MultipleAlignmentResultRowsMessage

        def __init__(self, prefix):
            self.prefix = prefix

        def handle(self, message):
            cands = []
            task = None
            for m in message.messages:
                row = m.alignment
                task = [qid(m.query.moleculeId), int(m.query.shift), len(m.query.positions)]
                segs = []
                for s in row.segments:
                    segs.append({"peak": int(s.peak.position), "score": float(s.segmentScore),
                                 "pos": [_pos(x) for x in s.positions]})
                cands.append({"ref": int(m.reference.moleculeId), "rev": bool(row.reverseStrand),
                              "conf": float(row.confidence), "index": int(m.index),
                              "seed": [int(m.correlation.maxPeak.position) if m.correlation.maxPeak else 0],
                              "pairs": [[p.reference.siteId, p.query.siteId, int(getattr(p, "source", 0))]
                                        for p in row.alignedPairs],
                              "segs": segs})
            _emit(self.prefix, {"ev": "Cands", "task": task, "cands": cands})

    return [SeedRecorder(path_prefix), RefineRecorder(path_prefix), RowRecorder(path_prefix), CandidateRecorder(path_prefix)]


def _pos(p) -> Dict:
    from src.alignment.alignment_position import ScoredAlignedPair, ScoredNotAlignedPosition, \
        NotAlignedReferencePosition
    if isinstance(p, ScoredAlignedPair):
        return {"k": "P", "r": [p.reference.siteId, float(p.reference.position)],
                "q": [p.query.siteId, float(p.query.position)], "sh": float(p.queryShift), "sc": float(p.score)}
    if isinstance(p, ScoredNotAlignedPosition):
        if isinstance(p.position, NotAlignedReferencePosition):
            return {"k": "R", "r": [p.position.reference.siteId, float(p.position.reference.position)],
                    "q": [0, 0], "sh": 0, "sc": float(p.score)}
        return {"k": "Q", "r": [0, 0], "q": [p.position.query.siteId, float(p.position.query.position)],
                "sh": 0, "sc": float(p.score)}
    return {"k": "?", "r": [0, 0], "q": [0, 0], "sh": 0, "sc": 0}


def read_recorded(path_prefix: str) -> List[Dict]:
    import glob
    out = []
    for fn in sorted(glob.glob(path_prefix + ".*.ndjson")):
        with open(fn) as f:
            out.extend(json.loads(ln) for ln in f if ln.strip())
        os.remove(fn)
    return out
