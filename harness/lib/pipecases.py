"""Generated end-to-end inputs (CMAP sets) and the observation of full COMA runs on them."""
from __future__ import annotations

import os
import random
import shutil
from typing import Dict, List, Optional

from . import gen, pipeline


def deci(xs: List[int], frac_rng: Optional[random.Random] = None) -> List[int]:
    """bp -> deci-bp, optionally with a random one-decimal fraction (keeps ascending order)"""
    out = []
    for x in xs:
        v = x * 10 + (frac_rng.randint(0, 9) if frac_rng else 0)
        if out and v <= out[-1]:
            v = out[-1] + 1
        out.append(v)
    return out


def make_input(rng: random.Random, n_refs: int = 2, n_qry: int = 8, ref_labels=(80, 200), kinds=None,
               decimals: bool = True, repeats: bool = False, lattice: int = 0, small_ids: bool = False,
               twins: bool = False, short_contigs: int = 0, labelless: bool = False, extra_refs: int = 0,
               sparse_ref: bool = False) -> Dict:
    """small_ids: references 1..n and queries 1..m (query ids collide with reference ids)
    twins: some maps get a coincident label (two SiteIDs with the same Position: legal CMAP, e.g. two sites closer than
    the 0.1 bp resolution of the file)"""
    refs = []
    shared = {}
    for rid in range(1, n_refs + 1):
        xs = gen.make_reference(rng, rng.randint(*ref_labels), min_gap=rng.choice([2000, 2500]),
                                mean_gap=rng.choice([9000, 11000]), repeats=repeats, lattice=lattice)
        dx = deci(xs, rng if decimals else None)
        refs.append({"id": rid if small_ids else rid * 3 - 1, "len": dx[-1] + rng.randint(10, 200000), "x": dx, "bp": xs})
    kinds = kinds or ["exact", "noisy", "stretched", "dropped", "indel", "chimeric", "mirror", "partial", "junk",
                      "tiny"]
    qrys = []
    qid = 1 if small_ids else rng.randint(1, 50)
    for k in range(n_qry):
        kind = kinds[k % len(kinds)] if k < len(kinds) else rng.choice(kinds)
        ref = rng.choice(refs)
        if small_ids and k < 2 and len(refs) >= 2:
            ref = refs[1 - k]          # query 1 lies on reference 2 and query 2 on reference 1 (ids cross over)
        xs = ref["bp"]
        n = len(xs)
        w = rng.randint(15, min(45, n - 10))
        w0 = rng.randint(4, n - w - 4)
        truth = []
        off = rng.choice([0, 0, 137, 20, 5000])
        mirrored = False
        if kind == "exact":
            coords, truth = gen.cut_query(rng, xs, w0, w0 + w, offset=off)
        elif kind == "noisy":
            coords, truth = gen.cut_query(rng, xs, w0, w0 + w, sigma=rng.choice([100, 250, 400]), offset=off)
        elif kind == "stretched":
            coords, truth = gen.cut_query(rng, xs, w0, w0 + w, sigma=100, stretch=rng.choice([0.92, 0.96, 1.05, 1.09]),
                                          offset=off)
        elif kind == "dropped":
            coords, truth = gen.cut_query(rng, xs, w0, w0 + w, sigma=150, drop=0.15, extra=0.1, offset=off)
        elif kind == "indel":
            coords, truth = gen.cut_query(rng, xs, w0, w0 + w, sigma=100,
                                          indel=(rng.randint(w0 + 5, w0 + w - 5),
                                                 rng.choice([-1, 1]) * rng.randint(3000, 40000)), offset=off)
        elif kind == "smallindel":
            # 0.5-3 kb inserted or deleted at one or two neighbouring labels: segments that end and start in the same pair
            i0 = rng.randint(w0 + 4, w0 + w - 5)
            coords, truth = gen.cut_query(rng, xs, w0, w0 + w, sigma=rng.choice([0, 0, 80]),
                                          indel=(i0, rng.choice([-1, 1]) * rng.randint(500, 3000)), offset=off)
            if rng.random() < 0.6:      # the same amount again at the next label
                d = rng.randint(500, 1500)
                k2 = min(len(coords) - 1, i0 - w0 + 1)
                coords = coords[:k2] + [v + d for v in coords[k2:]]
        elif kind == "chimeric":
            w1 = max(8, w // 2)
            a, _ = gen.cut_query(rng, xs, w0, w0 + w1, sigma=100)
            ref2 = rng.choice(refs)
            m = len(ref2["bp"])
            b0 = rng.randint(4, m - w1 - 4)
            b, _ = gen.cut_query(rng, ref2["bp"], b0, b0 + w1, sigma=100)
            gap = rng.randint(3000, 15000)
            coords = a + [a[-1] + gap + v for v in b]
        elif kind == "outscored":
            # a short clean part A, then a longer part B from elsewhere of which the molecule shows only every other
            # reference label: B's seed peak is the lower one (the reference vector carries twice the labels), its
            # alignment the better one (more pairs). With -p 1 the first pass takes A and the SECOND pass finds the better
            # alignment; the two cannot be joined (another reference, or the other strand of the same one)
            wa = rng.randint(11, 14)
            w0 = rng.randint(4, n - wa - 4)
            a, _ = gen.cut_query(rng, xs, w0, w0 + wa, sigma=30)
            others = [r for r in refs if r is not ref and len(r["bp"]) >= 40]
            ref2 = rng.choice(others) if others else ref
            m = len(ref2["bp"])
            nb = max(8, min(rng.randint(18, 22), (m - 8) // 2))
            b0 = rng.randint(4, m - 2 * nb - 3)
            bwin = ref2["bp"][b0:b0 + 2 * nb - 1:2]
            b = [v - bwin[0] + int(rng.gauss(0, 30)) for v in bwin]
            b = sorted(b)
            if ref2 is ref:
                b = [v - min(gen.mirror_query(b)) for v in gen.mirror_query(b)]
            gap = rng.randint(6000, 12000)
            coords = a + [a[-1] + gap + v - b[0] for v in b]
        elif kind == "swappedindel":
            # "B A1 A2" on an "A1 A2 B" reference: the two windows in the opposite order on the molecule, and the first
            # window (second on the molecule) split in two by a 2-4 kb indel: the alignment next to the junction has two
            # segments, the joined row would have to cross
            w1 = max(12, w // 2)
            g = rng.randint(1, 4)
            if w0 + 2 * w1 + g + 4 >= n:
                w0 = max(4, n - 2 * w1 - g - 5)
            a, _ = gen.cut_query(rng, xs, w0, w0 + w1, sigma=60,
                                 indel=(w0 + w1 // 2, rng.choice([-1, 1]) * rng.randint(2000, 4000)))
            b, _ = gen.cut_query(rng, xs, w0 + w1 + g, w0 + 2 * w1 + g, sigma=60)
            gap = rng.randint(3000, 12000)
            coords = b + [b[-1] + gap + v for v in a]
        elif kind in ("swapped", "dup", "split"):
            # two windows of the SAME reference close to each other: swapped = in the opposite order on the
            # molecule (crossing parts), dup = the same window twice, split = in order with a deletion between
            w1 = max(9, w // 2)
            g = rng.randint(1, 4)
            if w0 + 2 * w1 + g + 4 >= n:
                w0 = max(4, n - 2 * w1 - g - 5)
            a, _ = gen.cut_query(rng, xs, w0, w0 + w1, sigma=80)
            b0 = w0 if kind == "dup" else w0 + w1 + g
            b, _ = gen.cut_query(rng, xs, b0, b0 + w1, sigma=80)
            gap = rng.randint(3000, 12000)
            if kind == "swapped":
                a, b = b, a
            coords = a + [a[-1] + gap + v for v in b]
        elif kind == "inversion":
            # two neighbouring windows of the SAME reference, the second one inverted on the molecule: the first pass
            # places one part, the second pass the other part on the same reference but the opposite strand
            w1 = max(10, w // 2)
            g = rng.randint(1, 4)
            if w0 + 2 * w1 + g + 4 >= n:
                w0 = max(4, n - 2 * w1 - g - 5)
            a, _ = gen.cut_query(rng, xs, w0, w0 + w1 + rng.randint(0, 3), sigma=60)
            b, _ = gen.cut_query(rng, xs, w0 + w1 + g, w0 + 2 * w1 + g, sigma=60)
            b = gen.mirror_query(b)
            gap = rng.randint(3000, 9000)
            coords = a + [a[-1] + gap + v - b[0] for v in b]
        elif kind == "samestart":
            # several molecules of one input that START AT THE SAME reference label (same seed bin): the first is a long
            # plain copy, the later ones are shorter and continue, after a 17-30 kb deletion, with a tail
            if "samestart" not in shared:
                r0 = refs[0]
                s0 = rng.randint(4, max(5, len(r0["bp"]) - 215))
                shared["samestart"] = (r0, s0)
                ref = r0
                xs = ref["bp"]
                coords, truth = gen.cut_query(rng, xs, s0, min(len(xs) - 2, s0 + rng.randint(198, 208)))
            else:
                ref, s0 = shared["samestart"]
                xs = ref["bp"]
                # head (aligned by the shared seed), then a natural reference gap >= 18.5 kb shortened in the molecule so
                # that the tail lies 17.5 kb (just beyond the 16 kb refinement margin) off the head's diagonal, then a
                # tail worth more than the join penalty but shorter than the head
                cand = sorted((xs[j] - xs[j - 1], j) for j in range(s0 + 75, min(s0 + 130, len(xs) - 72))
                              if xs[j] - xs[j - 1] >= 18500)
                j = cand[0][1] if cand else s0 + 80          # the smallest such gap: the smallest join penalty
                ntail = rng.randint(60, 66)
                a, _ = gen.cut_query(rng, xs, s0, j)
                b, _ = gen.cut_query(rng, xs, j, min(len(xs) - 2, j + ntail))
                qgap = max(1000, (xs[j] - xs[j - 1]) - 17500)
                coords = a + [a[-1] + qgap + v for v in b]
        elif kind == "flankdup":
            # F + M + F: both flanks are noise-free copies of the SAME reference window F (M is a later window):
            # the two second-pass fragments get exactly equal confidence (a tie between tasks of one query)
            wf = rng.randint(13, 16)
            wm = rng.randint(34, 42)
            # the copy of F at the END of the molecule must be placed with a non-negative lag: F has to lie deeper
            # in the reference than the molecule is long
            # (and the whole molecule must fit into the reference at the lag of M: valid-mode correlation)
            w0 = max(4, min(n - (wf + 3 + wm + 5), n // 2 - (wf + wm) // 2 + rng.randint(-5, 5)))
            f, _ = gen.cut_query(rng, xs, w0, w0 + wf)
            m0 = w0 + wf + 3
            m, _ = gen.cut_query(rng, xs, m0, min(n - 2, m0 + wm))
            g1, g2 = 100 * rng.randint(40, 90), 100 * rng.randint(40, 90)
            a = f + [f[-1] + g1 + v for v in m]
            coords = a + [a[-1] + g2 + v for v in f]
        elif kind == "partial":     # half of the molecule aligns, the rest is unrelated
            a, truth = gen.cut_query(rng, xs, w0, w0 + max(8, w // 2), sigma=100)
            x = a[-1]
            tail = []
            for _ in range(rng.randint(8, 14)):
                x += 2000 + int(rng.expovariate(1 / 8000.))
                tail.append(x)
            coords = a + tail
        elif kind == "mirror":
            coords, truth = gen.cut_query(rng, xs, w0, w0 + w, sigma=rng.choice([0, 150]), offset=0)
            coords = gen.mirror_query(coords)
            mirrored = True
        elif kind in ("splitindel", "splitindelrev"):      # ...rev: always given from the other end (reverse strand)
            # two neighbouring windows of one reference with 40-90 kb of the reference missing between them, AND a small
            # indel (2-5 kb, larger than maxPairDistance) inside the first window: one of the two alignments that get
            # joined consists of two segments
            w1 = max(12, w // 2)
            g = rng.randint(4, 8)
            if w0 + 2 * w1 + g + 4 >= n:
                w0 = max(4, n - 2 * w1 - g - 5)
            a, _ = gen.cut_query(rng, xs, w0, w0 + w1, sigma=60,
                                 indel=(w0 + w1 // 2, rng.choice([-1, 1]) * rng.randint(2000, 5000)))
            b, _ = gen.cut_query(rng, xs, w0 + w1 + g, w0 + 2 * w1 + g, sigma=60)
            gap = rng.randint(3000, 9000)
            coords = a + [a[-1] + gap + v for v in b]
        elif kind == "endstub":
            # only the last four labels of the molecule match the reference (a stub of 20-60 kb); the rest are a few
            # unrelated, widely spaced labels: the first-pass alignment sits at the very end of the molecule and the
            # "unaligned fragment" handed to the second pass is the whole molecule again
            cand = [i for i in range(4, n - 8) if 20000 <= xs[i + 3] - xs[i] <= 60000]
            i0 = rng.choice(cand) if cand else rng.randint(4, n - 8)
            stub = [xs[i] - xs[i0] for i in range(i0, i0 + 4)]
            x = 0
            head = []
            for _ in range(rng.randint(2, 4)):
                head.append(x)
                x += rng.randint(25000, 45000)
            coords = head + [x + v for v in stub]
        elif kind == "junk":
            x = 0
            coords = []
            for _ in range(rng.randint(10, 25)):
                x += 2000 + int(rng.expovariate(1 / 9000.))
                coords.append(x)
        elif kind == "tiny":
            coords = sorted(rng.sample(range(0, 30000), rng.choice([1, 2, 3, 4, 5])))   # seed peaks but no scored segment
        elif kind == "onebin":
            # every label inside one seeding bin (1400 bp): the query's bit vector is [1], every non-zero correlation
            # sample is exactly 1.0 and so is their root mean square - the score of every peak is exactly 0.0
            coords = sorted(rng.sample(range(0, 1300), rng.choice([1, 2, 3])))
        elif kind == "toolong":
            # a molecule longer than every reference: no correlation is computed for it, it has no seed at all
            span = max(r["len"] for r in refs) // 10 + rng.randint(1000, 90000)
            coords = [0] + sorted(rng.sample(range(2000, span, 997), rng.randint(3, 8))) + [span]
        else:
            raise ValueError(kind)
        if (rng.random() < 0.35 or kind.endswith("rev")) and kind not in ("mirror", "tiny", "flankdup", "samestart", "onebin"):
            coords = gen.mirror_query(coords, coords[-1] + coords[0])
            mirrored = True
        dx = deci(coords, rng if decimals else None)
        qrys.append({"id": qid, "len": dx[-1] + rng.choice([1, 10, 3000, 50000]), "x": dx, "kind": kind,
                     "ref": ref["id"], "mirrored": mirrored})
        qid += 1 if small_ids else rng.randint(1, 9)
    for k in range(short_contigs):
        # a contig only a few kb longer than the molecule cut from it (from its first label, one spare label at the
        # end), the molecule given from its other end: the seeding correlation has a handful of lags and the wrong
        # strand often has its maximum on the border, where find_peaks reports nothing
        n = rng.randint(14, 24)
        xs = gen.make_reference(rng, n, min_gap=2500, mean_gap=9000, lattice=lattice)
        xs = [v - xs[0] + rng.randint(1400, 4000) for v in xs]
        dx = deci(xs, rng if decimals else None)
        rid = max(r["id"] for r in refs) + 2
        refs.append({"id": rid, "len": dx[-1] + rng.randint(10, 30000), "x": dx, "bp": xs})
        cut = [v - xs[0] for v in xs[:-1]]
        coords = gen.mirror_query(cut) if k % 2 == 0 else cut
        dq = deci(coords, rng if decimals else None)
        qrys.append({"id": qid, "len": dq[-1] + rng.choice([1, 10]), "x": dq, "kind": "shortcontig", "ref": rid,
                     "mirrored": k % 2 == 0})
        qid += 1 if small_ids else rng.randint(1, 9)
    if sparse_ref:
        # a long contig that is labelled on its first part only (labels stop, the end marker is 300-500 kb further on),
        # an "overlong" molecule that is longer than the labelled part but shorter than the contig (it cannot be placed:
        # empty initial alignment), and - with larger ids, i.e. later tasks - molecules that DO belong to the labelled part
        n = rng.randint(28, 40)
        xs = gen.make_reference(rng, n, min_gap=2500, mean_gap=8000, lattice=lattice)
        dx = deci(xs, rng if decimals else None)
        rid = max(r["id"] for r in refs) + 1
        refs.append({"id": rid, "len": dx[-1] + rng.randint(3000000, 5000000), "x": dx, "bp": xs})
        over = [0] + sorted(rng.sample(range(3000, xs[-1] + 20000, 1009), rng.randint(4, 9))) + [xs[-1] + rng.randint(30000, 200000)]
        first = min(q["id"] for q in qrys)
        oid = first - 1 if first > 1 and not small_ids else qid
        dq = deci(over, rng if decimals else None)
        qrys.insert(0 if oid < first else len(qrys), {"id": oid, "len": dq[-1] + 1, "x": dq, "kind": "overlong", "ref": 0,
                                                      "mirrored": False})
        if oid == qid:
            qid += 1 if small_ids else rng.randint(1, 9)
        for k in range(2):
            w = rng.randint(12, 18)
            a0 = rng.randint(1, n - w - 1)
            cut = [xs[i] - xs[a0] for i in range(a0, a0 + w)]
            coords = gen.mirror_query(cut) if k else cut
            dq = deci(coords, rng if decimals else None)
            qrys.append({"id": qid, "len": dq[-1] + rng.choice([1, 10]), "x": dq, "kind": "onsparse", "ref": rid,
                         "mirrored": bool(k)})
            qid += 1 if small_ids else rng.randint(1, 9)
    for _ in range(extra_refs):
        # many more (small) reference maps: a query is correlated with every reference on both strands
        xs = gen.make_reference(rng, rng.randint(30, 50), min_gap=2500, mean_gap=9000, lattice=lattice)
        dx = deci(xs, rng if decimals else None)
        refs.append({"id": max(r["id"] for r in refs) + rng.randint(1, 3), "len": dx[-1] + rng.randint(10, 30000), "x": dx,
                     "bp": xs})
    if labelless:
        # maps without any label (only the end-marker row, NumSites 0): valid CMAP; one reference with the smallest id
        # (all other references follow it), one in the middle of the queries
        low = min(r["id"] for r in refs) - 1
        if low >= 1:
            refs.insert(0, {"id": low, "len": rng.randint(2000000, 40000000), "x": [], "bp": []})
        mid = qrys[len(qrys) // 2]["id"]
        if all(q["id"] != mid + 1 for q in qrys) and not small_ids:
            qrys.insert(len(qrys) // 2 + 1, {"id": mid + 1, "len": rng.randint(100000, 3000000), "x": [], "kind": "labelless",
                                             "ref": 0, "mirrored": False})
    if twins:
        for m in refs + qrys:
            if len(m["x"]) >= 6 and rng.random() < 0.6:
                for _ in range(rng.choice([1, 1, 2])):
                    j = rng.randrange(2, len(m["x"]) - 2)
                    m["x"].insert(j, m["x"][j])
                    if "bp" in m and m["bp"]:
                        m["bp"].insert(j, m["bp"][j])
    return {"refs": refs, "qrys": qrys}


def write_input(workdir: str, inp: Dict, name: str, shuffle_rng=None, qsel=None, rsel=None, qorder=None,
                rorder=None, extra_columns=True):
    os.makedirs(workdir, exist_ok=True)
    rp = os.path.join(workdir, f"{name}_r.cmap")
    qp = os.path.join(workdir, f"{name}_q.cmap")
    refs = [r for r in inp["refs"] if rsel is None or r["id"] in rsel]
    qrys = [q for q in inp["qrys"] if qsel is None or q["id"] in qsel]
    if qorder:
        qrys = [next(q for q in qrys if q["id"] == i) for i in qorder if any(q["id"] == i for q in qrys)]
    if rorder:
        refs = [next(r for r in refs if r["id"] == i) for i in rorder if any(r["id"] == i for r in refs)]
    pipeline.write_cmap(rp, refs, shuffle_rng, extra_columns)
    pipeline.write_cmap(qp, [dict(q, id=q["id"] + pipeline.QID_BASE) for q in qrys] if pipeline.QID_BASE else qrys,
                        shuffle_rng, extra_columns)
    return rp, qp


def run_once(workdir: str, rp: str, qp: str, tag: str, mode: str, extra: Optional[Dict] = None, cli: bool = False,
             cpus: int = 1, record: bool = False, qids=None, rids=None, real_pool: bool = False, hashseed=None,
             ext: str = ".xmap") -> Dict:
    out = os.path.join(workdir, f"{tag}{ext}")       # ext="": an output path without extension (valid: -o results/aligned)
    files = pipeline.output_files(out, mode)
    for p in files.values():
        if os.path.exists(p):
            os.remove(p)
    argv = pipeline.arg_list(rp, qp, out, mode, cpus, extra, qids, rids)
    res: Dict = {"mode": mode, "argv": argv, "files": {}, "digest": {}, "recorded": [], "rows": None}
    if cli:
        code, outtxt = pipeline.run_cli(argv, hashseed=hashseed)
        res["status"] = "ok" if code == 0 else f"exit:{code}"
        res["log"] = outtxt if code != 0 else ""
    else:
        prefix = os.path.join(workdir, f"{tag}.rec")
        exts = pipeline.make_recorders(prefix) if record else []
        status, r = pipeline.run_inprocess(argv, exts, single=(mode == "single"), real_pool=real_pool)
        res["status"] = status
        res["log"] = r if status != "ok" else ""
        if status == "ok":
            res["rows"] = r
        if record:
            res["recorded"] = pipeline.read_recorded(prefix)
    for name, p in files.items():
        if os.path.exists(p):
            res["files"][name] = pipeline.parse_xmap(p)
            res["digest"][name] = pipeline.body_digest(p)
            res["files"][name]["path"] = p
        else:
            res["files"][name] = None
    return res
