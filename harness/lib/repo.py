"""Import COMA from the working tree under test (default /repo; VERIF_REPO for self-validation only)."""
import os
import sys

REPO = os.environ.get("VERIF_REPO", "/repo")
if REPO not in sys.path:
    sys.path.insert(0, REPO)
os.environ.setdefault("PYTHONHASHSEED", "0")
