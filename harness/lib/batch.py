"""Batch trace validation: write NDJSON, let TLC judge every line, collect verdicts."""
from __future__ import annotations

import json
import os
from typing import Any, Dict, Iterable, List, Optional, Tuple

from . import tlc


KIND_COUNTS: Dict[str, int] = {}    # filled by validate() from <<"K", ...>> prints (how often each spec outcome occurred)


def write_ndjson(path: str, records: Iterable[Any]) -> int:
    n = 0
    with open(path, "w") as f:
        for r in records:
            f.write(json.dumps(r, separators=(",", ":")))
            f.write("\n")
            n += 1
    return n


def read_ndjson(path: str) -> List[Any]:
    with open(path) as f:
        return [json.loads(ln) for ln in f if ln.strip()]


def export_space(module: str, cfg: str, workdir: str, name: str = "space.ndjson", env=None) -> List[Any]:
    """(B) let TLC write the InputSpace defined in TLA+ as NDJSON and read it back."""
    out = os.path.join(workdir, name)
    e = {"OUT_FILE": out}
    e.update(env or {})
    tlc.run_tlc(module, cfg, workdir, env=e, workers=1)
    if not os.path.exists(out):
        raise tlc.MachineryError(f"{module}/{cfg} did not write {out}")
    return read_ndjson(out)


def validate(module: str, cfg: str, workdir: str, records: List[Any], expected_states: Optional[int] = None,
             workers: int = 16, name: str = "trace.ndjson", env=None, timeout: int = 7200,
             max_bytes: int = 24_000_000
             ) -> Tuple[Dict[int, Tuple[List[str], List[str]]], "tlc.TlcResult"]:
    """(C) returns {trace index (0-based): (failed clauses, drift clauses)} for lines with a non-empty verdict.
    Large trace sets are validated in chunks of about max_bytes of NDJSON (one TLC run each) so that the JVM
    heap stays small; the returned TlcResult carries the summed state counts."""
    if not records:
        raise tlc.MachineryError("no traces to validate")
    lines = [json.dumps(r, separators=(",", ":")) for r in records]
    chunks: List[Tuple[int, int]] = []
    start, size = 0, 0
    for i, ln in enumerate(lines):
        if size + len(ln) > max_bytes and i > start:
            chunks.append((start, i))
            start, size = i, 0
        size += len(ln) + 1
    chunks.append((start, len(lines)))
    verdicts: Dict[int, Tuple[List[str], List[str]]] = {}
    total = None
    for (a, b) in chunks:
        path = os.path.join(workdir, name)
        with open(path, "w") as f:
            for ln in lines[a:b]:
                f.write(ln)
                f.write("\n")
        e = {"TRACE_FILE": path}
        e.update(env or {})
        r = tlc.run_tlc(module, cfg, workdir, env=e, workers=workers, timeout=timeout)
        for v in r.prints:
            tid = v[1] - 1 + a
            verdicts[tid] = (sorted(tlc.as_set(v[2])), sorted(tlc.as_set(v[3])))
        for kv in tlc.extract_prints(r.output, "K"):        # optional coverage prints <<"K", t, set>>
            for x in tlc.as_set(kv[2]):
                KIND_COUNTS[x] = KIND_COUNTS.get(x, 0) + 1
        os.remove(path)
        if total is None:
            total = r
        else:
            total.generated += r.generated
            total.distinct += r.distinct
            total.wall_s += r.wall_s
            total.depth = max(total.depth, r.depth)
    if expected_states is not None and total.distinct != expected_states:
        raise tlc.MachineryError(f"{module}: TLC explored {total.distinct} states, expected {expected_states} "
                                 f"(a trace was not run to its end)")
    return verdicts, total


def export_by_print(module: str, cfg: str, workdir: str, workers: int = 8, env=None, **tlc_kw) -> List[Any]:
    """(B) for modules whose input is grown inside the behaviour: the Export cfg makes TLC print every complete
    input once as  "X{json}"  (PrintT("X" \\o ToJson(inp))) and stops the search there."""
    r = tlc.run_tlc(module, cfg, workdir, env=env, workers=workers, tag="\0", **tlc_kw)
    out = []
    seen = set()
    for ln in r.output.splitlines():
        if ln.startswith('"X{') or ln.startswith('"X['):
            txt = ln[2:-1].replace('\\"', '"').replace("\\\\", "\\")
            if txt in seen:
                continue
            seen.add(txt)
            out.append(json.loads(txt))
    if not out:
        raise tlc.MachineryError(f"{module}/{cfg} exported nothing")
    return out
