"""File-level exploration shared by C05 and C08: the four output modes on the same generated input, judged by TLC
(Trace_Pipeline) as a whole."""
from __future__ import annotations

import threading
from typing import Dict, List

from lib import batch, tlc
from lib.core import Ctx
from props import pipe_common


def files_of(ms: Dict) -> Dict:
    def recs(name):
        f = ms["files"].get(name)
        return f["records"] if f else []
    return {"main": recs("main"), "f1": recs("_1"), "f2": recs("_2")}


def first_pass_candidates(summary: Dict) -> List[Dict]:
    """candidates of every whole-query task, from the recorder events of the 'all' run"""
    nlabels = {q["id"]: len(q["x"]) for q in summary["inp"]["qrys"]}
    seen = {}
    for ev in summary["modes"]["all"]["recorded"]:
        if ev["ev"] != "Cands" or ev["task"] is None:
            continue
        qid, shift, npos = ev["task"]
        if shift != 0 or npos != nlabels.get(qid) or qid in seen:
            continue
        seen[qid] = [{"r": c["ref"], "ori": "-" if c["rev"] else "+", "conf": int(round(c["conf"] * 10000)),
                      "pairs": [[p[0], p[1]] for p in c["pairs"]]} for c in ev["cands"]]
    return [{"q": q, "cands": c} for q, c in sorted(seen.items())]


def seed_cases(summary: Dict, peaks_count: int) -> List[Dict]:
    """per whole-query task: all primary peaks (score) and which of them were refined -> Trace_Vectorise 'sel'"""
    nlabels = {q["id"]: len(q["x"]) for q in summary["inp"]["qrys"]}
    margin = int(summary["extra"].get("-ma", 16000))
    prim: Dict[tuple, List] = {}
    chosen: Dict[tuple, List] = {}
    for ev in summary["modes"]["all"]["recorded"]:
        task = tuple(ev["task"]) if ev.get("task") else None
        if task is None or task[1] != 0 or task[2] != nlabels.get(task[0]):
            continue
        key = (task, ev["pid"])
        if ev["ev"] == "Primary":
            for pos, score, height in ev["peaks"]:
                prim.setdefault(task, [])
                item = (ev["ref"], ev["rev"], pos, score)
                if item not in prim[task]:
                    prim[task].append(item)
        elif ev["ev"] == "Refine":
            chosen.setdefault(task, [])
            item = (ev["index"], ev["ref"], ev["rev"], ev["start"] + margin)
            if item not in chosen[task]:
                chosen[task].append(item)
    # "over all references and both strands": a (reference, strand) for which no seeding correlation was observed is
    # correlated here with the same building blocks; its peaks join the list the selection is judged against
    # (an unobserved correlation without peaks changes nothing: skipping such a correlation is not a violation)
    seen_pairs: Dict[tuple, set] = {}
    for ev in summary["modes"]["all"]["recorded"]:
        task = tuple(ev["task"]) if ev.get("task") else None
        if ev["ev"] == "Primary" and task in prim or (ev["ev"] == "Primary" and task is not None
                                                       and task[1] == 0 and task[2] == nlabels.get(task[0])):
            seen_pairs.setdefault(task, set()).add((ev["ref"], ev["rev"]))
            prim.setdefault(task, [])
    unobserved = 0
    for task in list(prim):
        missing = [(r["id"], rev) for r in summary["inp"]["refs"] if r["x"]      # (the reader drops label-less maps, C17)
                   for rev in (False, True) if (r["id"], rev) not in seen_pairs.get(task, set())]
        if missing:
            for item in _correlate(summary, task[0], missing, peaks_count):
                unobserved += 1
                if item not in prim[task]:
                    prim[task].append(item)
    out = []
    for task, peaks in prim.items():
        if not peaks:
            continue
        sel = sorted(chosen.get(task, []))
        idx = []
        for (_, ref, rev, pos) in sel:
            hit = [i for i, p in enumerate(peaks, start=1) if p[0] == ref and p[1] == rev and p[2] == pos]
            idx.append(hit[0] if hit else 0)
        out.append({"kind": "sel", "vin": {"scores": [int(round(p[3] * 10 ** 6)) for p in peaks], "count": peaks_count},
                    "obs": idx, "tag": {"input": summary["idx"], "task": list(task)}})
    return out


def _correlate(summary: Dict, qid: int, pairs, peaks_count: int):
    """seeding correlation of query qid against the given (reference id, strand) pairs with the real building blocks,
    wired as _WorkflowCoordinator wires them; yields (ref, rev, position, score) per peak"""
    from src.correlation.optical_map import OpticalMap
    from src.correlation.sequence_generator import SequenceGenerator
    extra = summary["extra"]
    gen_ = SequenceGenerator(int(extra.get("-r1", 1400)), int(extra.get("-b1", 1)))
    md = int(extra.get("-md", 20000))
    q = next(x for x in summary["inp"]["qrys"] if x["id"] == qid)
    qm = OpticalMap(qid, int(q["len"] // 10), [v / 10. for v in q["x"]]).trim()
    for rid, rev in pairs:
        r = next(x for x in summary["inp"]["refs"] if x["id"] == rid)
        rm = OpticalMap(rid, int(r["len"] // 10), [v / 10. for v in r["x"]])
        ia = qm.getInitialAlignment(rm, gen_, md, peaks_count, rev)
        for pk in ia.peaks:
            yield (rid, rev, int(pk.position), float(pk.score))


def second_pass_lines(summary: Dict) -> List[Dict]:
    """Trace_Fragments lines that bind the pipeline's second pass to Fragments.tla: for every first-pass record
    (all._1) the fragments the model predicts vs the second-pass tasks the recorder saw for that query (Primary events
    are dispatched for every task, also for those that end without a candidate)"""
    qx = {q["id"]: q["x"] for q in summary["inp"]["qrys"]}
    tasks: Dict[int, List] = {}
    half: Dict[tuple, int] = {}
    ref0 = next(r["id"] for r in summary["inp"]["refs"] if r["x"])      # the first reference the reader keeps
    for ev in summary["modes"]["all"]["recorded"]:
        # one Primary event per (task, reference, strand): count each task once (first reference, forward strand),
        # keeping multiplicity (a fragment may coincide with the whole query)
        # every task dispatches exactly two seeding events per reference (forward, reverse; an EmptyInitialAlignment
        # carries reverseStrand False on both): every second event of the first reference counts one task
        if ev["ev"] == "Primary" and ev.get("task") and ev["ref"] == ref0:
            qid, shift, npos = ev["task"]
            half[(qid, shift, npos)] = half.get((qid, shift, npos), 0) + 1
            if half[(qid, shift, npos)] % 2 == 0:
                tasks.setdefault(qid, []).append((shift, npos))
    f1 = summary["modes"]["all"]["files"].get("_1")
    out = []
    if not f1:
        return out
    for rec in f1["records"]:
        xs = qx.get(rec["q"])
        if not xs or not rec["pairs"]:
            continue
        tx = [v - xs[0] for v in xs]
        whole = (0, len(xs))
        seen = list(tasks.get(rec["q"], []))
        if whole in seen:
            seen.remove(whole)          # the first-pass task itself
        obs = []
        for (shift, npos) in sorted(seen):
            obs.append({"x": tx[shift: shift + npos], "shift": shift, "len": tx[-1] + 10})
        # a fragment that IS the whole query (strand '-' with the alignment at the molecule's end) was removed above
        out.append({"xs": tx, "qlen": tx[-1] + 10,
                    "row": {"qs": rec["qs"], "qe": rec["qe"], "rev": rec["ori"] == "-",
                            "firstQ": rec["pairs"][0][1], "lastQ": rec["pairs"][-1][1]},
                    "obs": obs, "status": "ok", "tag": {"input": summary["idx"], "query": rec["q"]}})
    return out


def explore(ctx: Ctx, n_inputs: int, salt: int, kinds=None, n_qry: int = 12, model: bool = True):
    quick = ctx.tier == "quick"
    mc_res = {}

    def mc():
        if not model:
            return
        try:
            mc_res["r"] = tlc.run_tlc("MC_Pipeline", "MC_Pipeline.cfg" if quick else "MC_Pipeline_thorough.cfg",
                                      ctx.workdir, workers=4 if quick else 12, heap_gb=16, timeout=5400)
        except Exception as e:
            mc_res["err"] = e

    th = threading.Thread(target=mc)
    th.start()
    res = pipe_common.explore(ctx, n_inputs, n_qry=n_qry, record=True, kinds=kinds, salt=salt)
    lines = []
    for rr in res:
        s = rr["summary"]
        if any(ms["status"] != "ok" for ms in s["modes"].values()):
            lines.append(None)
            continue
        pc = int(s["extra"].get("-p", 3))
        lines.append({"runs": {m: files_of(s["modes"][m]) for m in pipe_common.MODES},
                      "maxDiff": int(s["extra"].get("-diff", 100000)), "peaksCount": pc,
                      "cands": first_pass_candidates(s)})
    payload = [ln for ln in lines if ln is not None]
    verdicts, r = batch.validate("Trace_Pipeline", "Trace_Pipeline.cfg", ctx.workdir, payload)
    ctx.add_traces(len(payload))
    ctx.states += r.distinct
    ctx.transitions += r.generated
    back = [i for i, ln in enumerate(lines) if ln is not None]
    out = []
    for tid, (failed, drift) in sorted(verdicts.items()):
        out.append((res[back[tid]], payload[tid], failed, drift))
    th.join()
    if "err" in mc_res:
        raise mc_res["err"]
    if model:
        ctx.add_model("MC_Pipeline", mc_res["r"])
        ctx.exhaustive = True
    return res, lines, out
