"""C01 - every reported alignment is a one-to-one, collinear matching of real labels (Aligner.align level;
the pipeline / file level is added by the pipeline checks)."""
from __future__ import annotations

from lib import alignlib
from lib.core import Ctx
from props import align_common, pipe_common


def run(ctx: Ctx):
    ctx.rule = ("[file level] every record of every XMAP file (main, _1, _2) of the four output modes on generated "
                "CMAP sets (1-3 references, 12 queries: exact / noisy / stretched / dropped / indel / chimeric / "
                "partial / mirrored / junk / tiny; 8 parameter vectors), text parsed independently, judged by TLC "
                "(Trace_Xmap); non-trivial there = joined records. [candidate level] candidate alignments built by the real Aligner.align from (i) every lattice input MC_AlignCore "
                "enumerates (printed by TLC) and (ii) realistic ladders of 2..7 seed peaks (noisy / stretched / "
                "indel queries, repeats, both strands, several parameter vectors); TLC (Trace_AlignCore) evaluates "
                "the C01 clauses on the listed pairs of every row. non-trivial = distinct input whose real row has "
                ">= 2 non-empty segments (conflict resolution mattered)")
    ctx.assumptions = ["label existence is checked against the maps the harness passed",
                       "rows without pairs are not records (the coordinator drops them)"]
    records, verdicts = align_common.explore(ctx, "C01", 1)
    for rec in records:
        if alignlib.multi_segment(rec):
            ctx.nontrivial(repr((rec["in"]["ref"], rec["in"]["qry"], rec["in"]["peaks"], rec["in"]["rev"],
                                 rec["in"]["par"])))
    for rec, mine, drift, allf in verdicts:
        if mine:
            ctx.violation(rec, mine, "", what=f"peaks={rec['in']['peaks']} rev={rec['in']['rev']} "
                                              f"pairs={rec['obs']['pairs'][:10]} par={rec['in']['par']}")
        elif drift and not allf:
            ctx.add_drift(1, {"in": rec["in"], "pairs": rec["obs"]["pairs"]})
    # ---- every record of every XMAP file of every mode, from the file text (Trace_Xmap)
    quick = ctx.tier == "quick"
    res = pipe_common.explore(ctx, 24 if quick else 400, n_qry=16, salt=1,
                              kinds=["swapped", "dup", "split", "chimeric", "indel", "partial", "dropped",
                                     "stretched", "noisy", "mirror", "swapped", "dup", "swappedindel", "swappedindel",
                                     "splitindel", "splitindelrev"])
    lines, out, r = pipe_common.validate_records(ctx, res, "C01")
    joined = [ln for ln in lines if ln["tag"]["file"] == "main" and ln["tag"]["mode"] in ("joined", "all")]
    ctx.notes["pipeline"] = {"inputs": len(res), "records": len(lines), "joined_records": len(joined),
                             "second_pass_records": sum(1 for ln in lines if ln["rec"]["rest"] == "True"),
                             "reverse_records": sum(1 for ln in lines if ln["rec"]["ori"] == "-")}
    for ln in joined:
        ctx.nontrivial(("joined", ln["tag"]["input"], ln["rec"]["q"], ln["tag"]["mode"]))
    for ln, mine, drift, allf in out:
        if mine:
            sig = ""
            ctx.violation(ln, mine, sig, what=f"input={ln['tag']['input']} mode={ln['tag']['mode']} "
                                              f"file={ln['tag']['file']} query={ln['rec']['q']} "
                                              f"pairs={ln['rec']['pairs'][:8]}...")
    if joined:
        ctx.sample({"file_record": {k: v for k, v in joined[0]["rec"].items() if k != "hit"}, "tag": joined[0]["tag"]},
                   limit=4)
    multi = [x for x in records if alignlib.multi_segment(x)]
    for s in multi[:2] + records[:1]:
        ctx.sample({"in": s["in"], "pairs": s["obs"]["pairs"], "conf": s["obs"]["conf"],
                    "segments": len(s["obs"]["segs"])})
