"""The per-task protocol of _WorkflowCoordinator.__align against spec/Worker.tla (trace validation, action by action).

Every message the coordinator dispatches inside the worker (InitialAlignmentMessage x 2 per reference,
CorrelationResultMessage per selected seed, AlignmentResultRowMessage per candidate, MultipleAlignmentResultRowsMessage)
is recorded by the harness Extension with a per-process sequence number; per task TLC (Trace_Worker) replays the events
against Worker's actions (Correlate / Select / Refine / Row / Multi / PickBest) and judges
  C16 (last sentence): the refined seeds are the peaksCount highest-scoring primary peaks, in descending order;
  C05 (candidate part): the returned row is a most confident candidate, at most peaksCount candidates;
a log that leaves the specification anywhere else is DRIFT.
"""
from __future__ import annotations

import multiprocessing as mp
import os
import random
import shutil

from lib import batch, pipecases
from lib.core import Ctx

KINDS = ["exact", "noisy", "onebin", "tiny", "mirror", "toolong", "partial", "junk", "onebin", "dropped", "tiny", "chimeric"]
VECTORS = [{}, {"-p": 1}, {"-p": 2}, {"-p": 5}, {"-p": 10, "-pt": 5}, {"-ma": 8000}, {"-p": 4, "-md": 5000}]


def _rank(values):
    order = {v: k + 1 for k, v in enumerate(sorted(set(values)))}
    return order


def all_primary(rp, qp, qid_, params):
    """every primary correlation of one query, computed with the real building blocks outside the coordinator (used when the
    coordinator did not dispatch all 2 x references of them: a strand or a reference it never looked at is invisible in
    its own log, but its peaks still belong to "all correlation peaks of the query")"""
    from src.parsers.cmap_reader import CmapReader
    from src.correlation.sequence_generator import SequenceGenerator
    with open(rp) as f:
        refs = CmapReader().readReferences(f)
    with open(qp) as f:
        qrys = [q.trim() for q in CmapReader().readQueries(f)]
    q = next(x for x in qrys if int(x.moleculeId) == qid_)
    sg = SequenceGenerator(params["r1"], params["b1"])
    out = []
    for r in refs:
        for rev in (False, True):
            ia = q.getInitialAlignment(r, sg, params["md"], params["p"], reverseStrand=rev)
            out.append({"ev": "Primary", "ref": int(r.moleculeId), "rev": rev,
                        "peaks": [[int(p.position), float(p.score), float(p.height)] for p in ia.peaks]})
    return out


def task_lines(recorded, rows, refs, pcount, margin, tag, files=None, params=None, second_pass_only=False, whole=None):
    by_task = {}
    for ev in sorted(recorded, key=lambda e: (e["pid"], e["seq"])):
        if ev.get("task") is None:
            continue
        by_task.setdefault((ev["pid"], tuple(ev["task"])), []).append(ev)
    returned = {}
    for row in rows:
        returned[int(row.queryId)] = float(row.confidence)
    lines = []
    for (pid, task), evs in by_task.items():
        is_fragment = whole is not None and (task[1] != 0 or task[2] != whole.get(task[0]))
        if second_pass_only and not is_fragment:
            continue
        rebuilt = False
        if files and not second_pass_only and sum(1 for e in evs if e["ev"] == "Primary") != 2 * len(refs):
            try:
                evs = all_primary(files[0], files[1], task[0], params) + [e for e in evs if e["ev"] != "Primary"]
                rebuilt = True
            except Exception:       # noqa: BLE001
                pass
        scores = [p[1] for e in evs if e["ev"] == "Primary" for p in e["peaks"]]
        sr = _rank(scores)
        confs = [e["conf"] for e in evs if e["ev"] == "Row"] + ([returned[task[0]]] if task[0] in returned else [])
        cr = _rank(confs)
        out = []
        for e in evs:
            if e["ev"] == "Primary":
                out.append({"e": "Primary", "ref": e["ref"], "rev": e["rev"], "n": len(e["peaks"]),
                            "peaks": [[p[0], sr[p[1]]] for p in e["peaks"]]})
            elif e["ev"] == "Refine":
                out.append({"e": "Refine", "ref": e["ref"], "rev": e["rev"], "pos": e["start"] + margin, "index": e["index"]})
            elif e["ev"] == "Row":
                out.append({"e": "Row", "ref": e["ref"], "rev": e["rev"], "index": e["index"], "conf": cr[e["conf"]],
                            "has": e["npairs"] > 0})
            elif e["ev"] == "Cands":
                out.append({"e": "Cands", "n": len(e["cands"])})
        res = {"has": task[0] in returned, "conf": cr[returned[task[0]]] if task[0] in returned else 0}
        lines.append({"refs": refs, "pcount": pcount, "ev": out, "res": res, "rebuilt": rebuilt, "judge": not second_pass_only,
                      "tag": dict(tag, query=task[0], fragment=list(task[1:]) if second_pass_only else [])})
    return lines


def one_input(args):
    seed, idx, workroot = args
    rng = random.Random(seed * 104729 + idx)
    inp = pipecases.make_input(rng, n_refs=rng.choice([1, 2, 3]), n_qry=12, ref_labels=(50, 110), kinds=KINDS,
                               short_contigs=idx % 2, repeats=(idx % 3 == 0), lattice=100 if idx % 4 == 1 else 0)
    extra = VECTORS[idx % len(VECTORS)]
    wd = os.path.join(workroot, f"worker-{os.getpid()}-{idx}")
    try:
        rp, qp = pipecases.write_input(wd, inp, "in")
        res = pipecases.run_once(wd, rp, qp, "o", "single", extra, record=True)
        if res["status"] != "ok":
            return {"status": res["status"], "lines": [], "log": res["log"][-300:]}
        refs = sorted(r["id"] for r in inp["refs"] if r["x"])
        params = {"r1": int(extra.get("-r1", 1400)), "b1": int(extra.get("-b1", 1)), "md": int(extra.get("-md", 20000)),
                  "p": int(extra.get("-p", 3))}
        lines = task_lines(res["recorded"], res["rows"].rows, refs, int(extra.get("-p", 3)), int(extra.get("-ma", 16000)),
                           {"input": idx, "extra": extra}, files=(rp, qp), params=params)
        if idx % 2 == 0:
            # the second pass hands FRAGMENTS of the molecules to the same coordinator: their tasks are replayed as well
            # (mode 'separate'; what is returned for a fragment is not visible in the run's result and is not judged)
            res2 = pipecases.run_once(wd, rp, qp, "o2", "separate", extra, record=True)
            if res2["status"] == "ok":
                whole = {q["id"]: len(q["x"]) for q in inp["qrys"]}
                lines += task_lines(res2["recorded"], [], refs, int(extra.get("-p", 3)), int(extra.get("-ma", 16000)),
                                    {"input": idx, "extra": extra}, second_pass_only=True, whole=whole)
        return {"status": "ok", "lines": lines, "log": ""}
    finally:
        shutil.rmtree(wd, ignore_errors=True)


def apalache_worker(workdir: str):
    """thorough tier: the three obligations of the inductive invariant of the counter abstraction of Worker.tla
    (spec/apalache/Apa_Worker.tla) - for ANY number of references, peaks and peaksCount"""
    import subprocess
    from lib import tlc
    out = {}
    spec = os.path.join(os.path.dirname(os.path.dirname(os.path.abspath(__file__))), "..", "spec", "apalache")
    for name, args in (("Init=>IndInv", ["--init=Init", "--inv=IndInv", "--length=0"]),
                       ("IndInv/\\Next=>IndInv'", ["--init=IndInit", "--inv=IndInv", "--length=1"]),
                       ("IndInv=>Inv_Protocol", ["--init=IndInit", "--inv=Inv_Protocol", "--length=0"])):
        try:
            p = subprocess.run(["apalache-mc", "check"] + args + ["--out-dir=" + os.path.join(workdir, "apalache-w"), "Apa_Worker.tla"],
                               cwd=os.path.abspath(spec), stdout=subprocess.PIPE, stderr=subprocess.STDOUT, text=True, timeout=900)
            ok = "The outcome is: NoError" in p.stdout
            out[name] = "NoError" if ok else ("Error" if "The outcome is: Error" in p.stdout else "not run: " + p.stdout[-200:])
        except Exception as e:      # noqa: BLE001   the tool is an extra: its absence is reported, not an error of the check
            out[name] = "not run: " + repr(e)[:200]
    if any(v == "Error" for v in out.values()):
        raise tlc.MachineryError(f"Apalache: an obligation of the inductive invariant of the worker protocol fails: {out}")
    return out


def run_part(ctx: Ctx, mine: str):
    quick = ctx.tier == "quick"
    n = 14 if quick else 200
    with mp.get_context("fork").Pool(min(14, n)) as pool:
        results = pool.map(one_input, [(ctx.seed * 53 + 7, i, ctx.workdir) for i in range(n)])
    lines = [ln for r in results for ln in r["lines"]]
    aborted = [r for r in results if r["status"] != "ok"]
    payload = [{k: v for k, v in ln.items() if k != "tag"} for ln in lines]
    before = dict(batch.KIND_COUNTS)
    verdicts, r = batch.validate("Trace_Worker", "Trace_Worker.cfg", ctx.workdir, payload, name="worker.ndjson")
    ctx.add_traces(len(lines))
    note = {"tasks_replayed": len(lines), "events": sum(len(ln["ev"]) for ln in lines), "states": r.distinct,
            "runs_that_aborted_(C07)": len(aborted), "other_property_clauses": {}, "drift": 0,
            "situations": {k: v - before.get(k, 0) for k, v in batch.KIND_COUNTS.items()
                           if k in ("done", "stuck", "aborted", "no_seed", "cut", "tied_scores") and v - before.get(k, 0)}}
    for ln in lines:
        if sum(1 for e in ln["ev"] if e["e"] == "Refine") >= 2:
            ctx.nontrivial(("worker", ln["tag"]["input"], ln["tag"]["query"]))
    for tid, (failed, drift) in sorted(verdicts.items()):
        ln = lines[tid]
        my = [c for c in failed if c.startswith(mine + ":")]
        for c in failed:
            if not c.startswith(mine + ":"):
                note["other_property_clauses"][c] = note["other_property_clauses"].get(c, 0) + 1
        if my:
            ctx.violation(ln, my, "", what=f"task {ln['tag']} events={[e['e'] for e in ln['ev']][:14]}")
        elif drift and not failed:
            note["drift"] += 1
            ctx.add_drift(1, {"worker_task": ln["tag"], "drift": drift})
    if not quick and mine == "C05":
        note["apalache_inductive_invariant_of_the_protocol_counters"] = apalache_worker(ctx.workdir)
    ctx.notes["worker_protocol"] = note
    if lines:
        ctx.sample({"worker_task": max(lines, key=lambda x: len(x["ev"]))}, limit=5)
