"""C07 - well-formed input never aborts the run; unalignable queries just yield no record.

(A) TLC: MC_Worker (no abort when no seed peak is selected; D2 deviation shown), MC_AlignCore's Inv_C07 is part of
    C01's run; every partial operation of the code is an explicit Abort action in those modules.
(B/C) degenerate but syntactically valid CMAP sets through the real pipeline (Program.run in process, and the
    real CLI for a share) in all modes and several parameter vectors; any exception / non-zero exit is a violation
    by definition; files must be well formed, readable by the project's reader, and the records of the ordinary
    queries must equal those of a run without the degenerate ones (judged by TLC: Trace_Pipeline SameFile).
"""
from __future__ import annotations

import multiprocessing as mp
import os
import random
import shutil
from typing import Dict, List

from lib import batch, pipecases, pipeline, tlc
from lib.core import Ctx
from props import pipe_common, seeding

MODES = ["best", "separate", "joined", "all", "single"]
VECTORS = [
    {},
    {"-r1": 700, "-md": 700, "-b1": 0},
    {"-r1": 2000, "-md": 2000, "-r2": 50, "-b2": 0, "-p": 1},
    {"-ma": 0, "-pt": 1},
    {"-d": 0, "-ms": 1, "-bs": 1},
    {"-p": 8, "-diff": 0},
    {"-ss": 1},
    {"-ss": 2, "-sj": 0.5, "-d": 1000},
    {"-pt": 1, "-r2": 50, "-b2": 1},
    {"-sp": 10, "-dp": 0.001, "-su": 0, "-ms": 1, "-bs": 0},
]


def degenerate_input(rng: random.Random, flavour: int) -> Dict:
    """ordinary queries (ids < 1000) + degenerate molecules (ids >= 1000)"""
    base = pipecases.make_input(rng, n_refs=rng.choice([1, 2]), n_qry=6,
                                kinds=["smallindel", "noisy", "smallindel", "mirror", "indel", "smallindel"],
                                ref_labels=(60, 120))
    refs, qrys = base["refs"], base["qrys"]
    big = max(r["len"] for r in refs)
    deg: List[Dict] = []

    def q(xs_bp, length_extra=10):
        dx = [v * 10 for v in xs_bp]
        deg.append({"id": 1000 + len(deg) * 7, "len": dx[-1] + length_extra, "x": dx, "kind": "degenerate",
                    "ref": 0, "mirrored": False})

    if flavour % 8 == 6:      # a reference whose labels stop long before its end marker; molecules longer than the
        # labelled part but shorter than the contig length
        if rng.random() < 0.6:
            refs[:] = []          # the sparse reference alone (its spurious peak is then certainly selected)
            qrys = []
        refs.append({"id": 902, "len": 10000000 + rng.randint(0, 9) * 1000000,
                     "x": [v * 10 for v in sorted(rng.sample(range(500, 40000), rng.randint(1, 4)))], "bp": []})
        q(list(range(0, rng.randint(90000, 400000), 11000)))
        q([0, 20000, 45000, 70000, 99000, 130000])
    elif flavour % 8 == 7:    # a contig labelled only in its first part + a chimeric molecule whose right-hand rest
        # carries that contig's label pattern: the second-pass fragment keeps the whole molecule's coordinates, so its
        # vector is longer than the labelled part of the contig although its label span is not
        from lib import gen
        pat = gen.make_reference(rng, rng.randint(20, 28), min_gap=2500, mean_gap=9000)
        pat = [v - pat[0] + rng.randint(500, 4000) for v in pat]
        refs.append({"id": 903, "len": (pat[-1] + rng.randint(400000, 900000)) * 10, "x": [v * 10 for v in pat], "bp": pat})
        xs = refs[0]["bp"]
        w = min(len(xs) - 10, rng.randint(42, 55))
        w0 = rng.randint(4, len(xs) - w - 4)
        a, _ = gen.cut_query(rng, xs, w0, w0 + w, sigma=60)
        gap = rng.randint(3000, 9000)
        q(a + [a[-1] + gap + v - pat[0] for v in pat], length_extra=rng.choice([10, 30000]))
        b, _ = gen.cut_query(rng, xs, w0, w0 + w, sigma=60)
        b = gen.mirror_query(b)
        q([v - pat[0] for v in pat] + [pat[-1] - pat[0] + gap + v - b[0] for v in b])
    elif flavour % 8 == 0:      # one- and two-label molecules; a molecule that spans the whole labelled part of a reference
        q(list(refs[0]["bp"]), length_extra=rng.choice([1, 10, 500]))      # (the seeding correlation then has one sample)
        q([500])
        q([100, 9000])
        q([0])
    elif flavour % 8 == 1:    # duplicate positions
        q([1000, 1000, 1000, 8000, 8000, 20000, 31000, 31000, 45000, 60000])
        q([10, 10])
    elif flavour % 8 == 2:    # longer than every reference
        xs = list(range(0, big // 10 + 200000, 9000))
        q(xs)
    elif flavour % 8 == 3:    # a reference with a single label / two labels, molecules in between
        refs.append({"id": 900, "len": 500000, "x": [1234560], "bp": [123456]})
        refs.append({"id": 901, "len": 900000, "x": [100000, 8000000], "bp": [10000, 800000]})
        q([0, 7000, 15000, 21000, 30000, 41000, 47000, 58000])
    elif flavour % 8 == 4:    # no ordinary query at all: empty result sets
        qrys = []
        q([0, 3000])
        q([200, 5000, 5100])
    else:                     # very dense and very sparse molecules
        q(list(range(0, 40000, 150)))
        q([0, 400000, 900000])
    return {"refs": refs, "qrys": qrys + deg, "ordinary": [x["id"] for x in qrys]}


def one_input(args):
    seed, idx, workroot = args
    rng = random.Random(seed * 65537 + idx)
    inp = degenerate_input(rng, idx)
    extra = VECTORS[idx % len(VECTORS)]
    wd = os.path.join(workroot, f"c07-{os.getpid()}-{idx}")
    os.makedirs(wd, exist_ok=True)
    out = {"idx": idx, "extra": extra, "runs": {}, "degenerate": [q["id"] for q in inp["qrys"] if q["id"] >= 1000],
           "ordinary": inp["ordinary"]}
    try:
        rp, qp = pipecases.write_input(wd, inp, "full")
        rp2, qp2 = pipecases.write_input(wd, inp, "plain", qsel=set(inp["ordinary"]))
        for mode in MODES:
            use_cli = (idx + MODES.index(mode)) % 5 == 0 and mode != "single"
            # every third input writes to an output path without extension (then the additional files are <out>_1, <out>_2)
            res = pipecases.run_once(wd, rp, qp, "full_" + mode, mode, extra, cli=use_cli, ext="" if idx % 3 == 2 else ".xmap")
            ent = {"status": res["status"], "log": res["log"][-500:], "cli": use_cli, "files": {}}
            for name, parsed in res["files"].items():
                if parsed is None:
                    ent["files"][name] = None
                    continue
                f = {"header_ok": parsed["header_ok"],
                     "malformed": [r["malformed"] for r in parsed["records"] if r.get("malformed")],
                     "records": [pipe_common.rec_for_tla(r) for r in parsed["records"] if not r.get("malformed")]}
                try:
                    rb = pipe_common.read_back(parsed["path"], rp, qp)
                    f["readback"] = "ok" if len(rb) == len(f["records"]) else f"count:{len(rb)}"
                except Exception as e:
                    f["readback"] = "exc:" + type(e).__name__
                ent["files"][name] = f
            if inp["ordinary"] and mode != "single":
                ref_run = pipecases.run_once(wd, rp2, qp2, "plain_" + mode, mode, extra)
                ent["plain_status"] = ref_run["status"]
                ent["plain"] = {name: ([pipe_common.rec_for_tla(r) for r in p["records"] if not r.get("malformed")]
                                       if p else None) for name, p in ref_run["files"].items()}
            out["runs"][mode] = ent
        # the standard output as destination ("-o ... Stdout is used if omitted"): through a pipe / redirected to a file,
        # and a device as -o; the records must be those of the run that wrote a regular file
        if idx % 3 == 1:
            via = "pipe" if idx % 2 else "file"
            mode = "best"
            cap = os.path.join(wd, f"stdout_{via}.xmap")
            argv = pipeline.arg_list(rp, qp, "unused", mode, 1, extra)
            code, err = pipeline.run_cli_to_stdout(argv, cap, via)
            ent = {"status": "ok" if code == 0 else f"exit:{code}", "log": err[-500:], "cli": True, "files": {}}
            parsed = pipeline.parse_xmap(cap)
            f = {"header_ok": parsed["header_ok"],
                 "malformed": [r["malformed"] for r in parsed["records"] if r.get("malformed")],
                 "records": [pipe_common.rec_for_tla(r) for r in parsed["records"] if not r.get("malformed")]}
            try:
                rb = pipe_common.read_back(cap, rp, qp)
                f["readback"] = "ok" if len(rb) == len(f["records"]) else f"count:{len(rb)}"
            except Exception as e:
                f["readback"] = "exc:" + type(e).__name__
            ent["files"]["main"] = f
            base = out["runs"].get("best")
            if base and base["status"] == "ok" and base["files"].get("main"):
                ent["plain_status"] = "ok"
                ent["plain"] = {"main": base["files"]["main"]["records"]}
                ent["plain_keeps_all"] = True
            out["runs"][f"best/stdout-{via}"] = ent
            if idx % 2:
                code, log = pipeline.run_cli(pipeline.arg_list(rp, qp, os.devnull, mode, 1, extra))
                out["runs"]["best/dev-null"] = {"status": "ok" if code == 0 else f"exit:{code}", "log": log[-500:],
                                                "cli": True, "files": {}}
        # selections that match nothing: no query / no reference at all
        for label, kw in (("qId-matches-nothing", {"qids": [987654]}), ("rId-matches-nothing", {"rids": [987654]})):
            mode = MODES[idx % 4]
            res = pipecases.run_once(wd, rp, qp, "none_" + label, mode, extra, **kw)
            ent = {"status": res["status"], "log": res["log"][-500:], "cli": False, "files": {}}
            for name, parsed in res["files"].items():
                if parsed is None:
                    ent["files"][name] = None
                    continue
                f = {"header_ok": parsed["header_ok"],
                     "malformed": [r["malformed"] for r in parsed["records"] if r.get("malformed")],
                     "records": [pipe_common.rec_for_tla(r) for r in parsed["records"] if not r.get("malformed")]}
                try:
                    rb = pipe_common.read_back(parsed["path"], rp, qp)
                    f["readback"] = "ok" if len(rb) == len(f["records"]) else f"count:{len(rb)}"
                except Exception as e:
                    f["readback"] = "exc:" + type(e).__name__
                ent["files"][name] = f
            out["runs"][f"{mode}/{label}"] = ent
    finally:
        shutil.rmtree(wd, ignore_errors=True)
    return out


def without_ids(recs, drop):
    """records of the ordinary queries, renumbered (XmapEntryID is positional)"""
    keep = [dict(r) for r in recs if r["q"] not in drop]
    for k, r in enumerate(keep, start=1):
        r["id"] = k
    return keep


def run(ctx: Ctx):
    quick = ctx.tier == "quick"
    ctx.rule = ("syntactically valid degenerate CMAP sets: one- and two-label molecules, duplicate positions, queries "
                "longer than every reference, references with one or two labels, inputs without any alignable query, "
                "very dense / very sparse molecules - alone and mixed with ordinary queries; modes best / separate / "
                "joined / all / single; 10 parameter vectors allowed by the option help (minPeakDistance >= "
                "primaryResolution); in process and through the CLI, output to a file (with / without extension), to the "
                "standard output (pipe / redirected) and to a device. non-trivial = distinct (input, mode) run")
    ctx.assumptions = ["'well-formed input' = CMAP text in the documented format with >= 1 label row per molecule and "
                       "an end-marker row; parameter vectors respect minPeakDistance >= primaryResolution"]
    mc = tlc.run_tlc("MC_Worker", "MC_Worker.cfg", ctx.workdir, workers=4)
    ctx.add_model("MC_Worker", mc)
    d2 = tlc.run_tlc("MC_Worker", "MC_Worker_d2.cfg", ctx.workdir, workers=2, allow_violation=True)
    if not d2.invariant_violated:
        raise tlc.MachineryError("MC_Worker_d2: the D2 deviation is no longer reachable in the model")
    ctx.notes["named_deviation_D2"] = "EmptySelectionAborts=TRUE violates Inv_C07 in the model (no peak selected)"
    ctx.exhaustive = True
    # the two numerical stages on their own (getInitialAlignment / refine on degenerate geometries: molecules longer than the
    # labelled part, seeds next to either end, windows without labels): a call that raises where Seeding.tla has no named
    # abort is a C07 violation (the run would abort)
    seeding.run_part(ctx, "C07", model=False)
    n = 35 if quick else 350
    jobs = [(ctx.seed * 13 + 7, i, ctx.workdir) for i in range(n)]
    with mp.get_context("fork").Pool(min(14, n)) as pool:
        results = pool.map(one_input, jobs)
    cmp_lines = []
    cmp_tags = []
    for res in results:
        for mode, ent in res["runs"].items():
            ctx.nontrivial((res["idx"], mode))
            tag = {"input": res["idx"], "mode": mode, "extra": res["extra"], "cli": ent["cli"]}
            if ent["status"] != "ok":
                sig = ""
                ctx.violation({"tag": tag, "log": ent["log"]}, ["run_aborted_" + ent["status"]], sig,
                              what=f"input={res['idx']} mode={mode} {ent['status']} {ent['log'][-160:]!r}")
                continue
            for name, f in ent["files"].items():
                if f is None:
                    ctx.violation({"tag": tag, "file": name}, ["output_file_missing"], "", what=f"{tag} {name}")
                    continue
                if not f["header_ok"] or f["malformed"]:
                    ctx.violation({"tag": tag, "file": name, "malformed": f["malformed"][:3]}, ["file_well_formed"], "",
                                  what=f"{tag} {name} malformed={f['malformed'][:1]}")
                if f["readback"] != "ok":
                    ctx.violation({"tag": tag, "file": name, "records": len(f["records"])},
                                  ["readable_by_project_reader_" + f["readback"]], "",
                                  what=f"{tag} {name} records={len(f['records'])} readback={f['readback']}")
                if any(r["q"] in res["degenerate"] and False for r in f["records"]):
                    pass
            if "plain" in ent and ent.get("plain_status") == "ok":
                # the ordinary queries' records must not depend on the degenerate molecules
                runs = {}
                drop = set() if ent.get("plain_keeps_all") else set(res["degenerate"])
                for which, src in (("with", {n_: (f["records"] if f else []) for n_, f in ent["files"].items()}),
                                   ("without", {n_: (v or []) for n_, v in ent["plain"].items()})):
                    runs[which] = {"main": without_ids(src.get("main", []), drop),
                                   "f1": without_ids(src.get("_1", []), drop),
                                   "f2": without_ids(src.get("_2", []), drop)}
                cmp_lines.append(runs)
                cmp_tags.append(tag)
    if cmp_lines:
        verdicts, r = batch.validate("Trace_SameFiles", "Trace_SameFiles.cfg", ctx.workdir, cmp_lines)
        ctx.add_traces(len(cmp_lines))
        ctx.states += r.distinct
        ctx.transitions += r.generated
        for tid, (failed, drift) in sorted(verdicts.items()):
            if failed and "stdout" in str(cmp_tags[tid]["mode"]):
                # the same run written to the standard output gives other records than written to a file: not a clause
                # of C07 (an observation)
                ctx.add_drift(1, {"tag": cmp_tags[tid], "note": "stdout_differs_from_file"})
            elif failed:
                ctx.violation({"tag": cmp_tags[tid], "runs": cmp_lines[tid]}, failed, "",
                              what=f"{cmp_tags[tid]}: records of ordinary queries change when degenerate molecules are present")
    ctx.notes["runs"] = sum(len(r["runs"]) for r in results)
    ctx.notes["cli_runs"] = sum(1 for r in results for e in r["runs"].values() if e["cli"])
    ctx.notes["zero_record_files"] = sum(1 for r in results for e in r["runs"].values()
                                         for f in e["files"].values() if f and not f["records"])
    ctx.sample({"input": results[0]["idx"], "degenerate_ids": results[0]["degenerate"], "extra": results[0]["extra"],
                "statuses": {m: e["status"] for m, e in results[0]["runs"].items()}})
    ctx.sample({"input": results[-1]["idx"], "degenerate_ids": results[-1]["degenerate"],
                "statuses": {m: e["status"] for m, e in results[-1]["runs"].items()}})
