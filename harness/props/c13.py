"""C13 - segments are maximal positive-scoring runs that respect both thresholds.

(A) TLC: MC_Segmenter (the implementation-shaped builder satisfies C13_Holds on the whole bounded space).
(B) TLC exports the same InputSpace; every case is run through the REAL AlignmentSegmentsFactory.
(C) TLC (Trace_Segmenter) evaluates the C13 clauses on each real result, and replays the Impl actions (drift).
"""
from __future__ import annotations

import random
import threading

from lib import batch, tlc
from lib.core import Ctx
from lib import repo  # noqa: F401  (sets sys.path)


def build_positions(kd, sc, den=1):
    from src.alignment.alignment_position import AlignedPair, ScoredAlignedPair, ScoredNotAlignedPosition, \
        NotAlignedReferencePosition, NotAlignedQueryPosition
    from src.correlation.optical_map import PositionWithSiteId
    out = []
    for k, (kind, s) in enumerate(zip(kd, sc), start=1):
        score = s / den if den != 1 else s
        if kind == "P":
            out.append(ScoredAlignedPair(AlignedPair(PositionWithSiteId(k, 100 * k), PositionWithSiteId(k, 100 * k), 0),
                                         score))
        elif kind == "R":
            out.append(ScoredNotAlignedPosition(NotAlignedReferencePosition(PositionWithSiteId(k, 100 * k)), score))
        else:
            out.append(ScoredNotAlignedPosition(NotAlignedQueryPosition(PositionWithSiteId(k, 100 * k), 0), score))
    return out


_FACTORIES = {}   # one factory per (minScore, breakSegmentThreshold) for all cases, as the pipeline keeps one per process


def run_real(case, den=1):
    """Run one input through the real factory; returns the observation in spec terms (scaled integers)."""
    from src.alignment.segments_factory import AlignmentSegmentsFactory
    from src.correlation.peak import Peak
    positions = build_positions(case["kd"], case["sc"], den)
    index = {id(p): k for k, p in enumerate(positions, start=1)}
    ms = case["ms"] / den if den != 1 else case["ms"]
    bs = case["bs"] / den if den != 1 else case["bs"]
    if (ms, bs) not in _FACTORIES:
        _FACTORIES[(ms, bs)] = AlignmentSegmentsFactory(ms, bs)
    segs = _FACTORIES[(ms, bs)].getSegments(positions, Peak(0, 1.))
    obs = []
    for s in segs:
        idx = [index.get(id(p), 0) for p in s.positions]
        v = s.segmentScore * den
        iv = int(round(v))
        if abs(v - iv) > 1e-6:
            iv = int(round(v * 1000)) * 0 + iv  # non-integral score cannot be represented; clause score_is_sum decides
        obs.append({"idx": idx, "score": iv})
    return obs


def random_case(rng: random.Random):
    style = rng.random()
    n = rng.randint(5, 40)
    if style < 0.4:       # small alphabet that hits the equalities
        alpha = [-3, -2, -1, 0, 1, 2, 3]
        sc = [rng.choice(alpha) for _ in range(n)]
        ms = rng.randint(1, 5)
        bs = rng.randint(0, 6)
    elif style < 0.8:     # realistic: sp - dp*|shift| and unmatched penalties
        sp, su = rng.choice([(1000, -250), (1000, -500), (400, -250), (100, -100)])
        sc = []
        for _ in range(n):
            u = rng.random()
            if u < 0.55:
                sc.append(sp - rng.choice([0, 0, 100, 250, 500, sp, sp + 250, 1500]))
            else:
                sc.append(su)
        ms = rng.choice([sp, 2 * sp, 1000, 250, 1])
        bs = rng.choice([1200, 250, 500, sp, 1, 0, 2 * sp])
    else:                 # runs of positives separated by deep valleys
        sc = []
        while len(sc) < n:
            sc += [rng.randint(1, 4) for _ in range(rng.randint(1, 5))]
            sc += [-rng.randint(1, 6) for _ in range(rng.randint(1, 3))]
        sc = sc[:n]
        ms = rng.randint(1, 8)
        bs = rng.randint(0, 8)
    kd = ["P" if s > 0 else rng.choice(["P", "R", "Q", "R", "Q"]) for s in sc]
    return {"sc": sc, "kd": kd, "ms": ms, "bs": bs}


def decimal_tie_case(rng: random.Random):
    """one-decimal scores (tenths, den = 10: not binary fractions). The only exact ties are runs that START with a pair
    scoring x directly followed by a position scoring -x (x + (-x) is 0 in floating point as well, whatever else the
    list holds); every other contiguous sub-sum stays at least 0.1 away from 0, -bs and ms, far beyond rounding noise -
    so exact decimal arithmetic (TLC, tenths as integers) and any float evaluation of "the sum of the run's members"
    agree on every comparison the property makes. Returns None when the drawn list has another tie."""
    def d1(lo, hi):
        while True:
            v = rng.randint(lo * 10, hi * 10)
            if v % 5:
                return v
    ms = rng.choice([1000, 500, 250, 1]) * 10
    bs = rng.choice([1200, 500, 1000, 2000]) * 10
    sc = []
    for _ in range(rng.randint(1, 3)):
        if rng.random() < 0.7:                       # a run that is broken by a valley
            sc += [d1(300, 1500) for _ in range(rng.randint(1, 3))]
            drop = -rng.choice([2500, 5000, 2507, 3333])
            while sum(sc) > 0 or -sum(sc[-3:]) < bs and len(sc) < 30:
                sc.append(drop)
                if sum(sc) <= 0:
                    break
        x = d1(200, 999)
        sc += [x, -x] + [d1(300, 1500) for _ in range(rng.randint(1, 4))]
        if rng.random() < 0.5:
            sc += [-2500, d1(300, 1200)]
    n = len(sc)
    if n > 40:
        return None
    pairs = {(i, i + 2) for i in range(n - 1) if sc[i] > 0 and sc[i + 1] == -sc[i]}
    for i in range(n):
        acc = 0
        for j in range(i, n):
            acc += sc[j]
            if acc in (0, -bs, ms, bs) and (i, j + 1) not in pairs:
                return None
    kd = ["P" if v > 0 else rng.choice(["P", "P", "R", "Q"]) for v in sc]
    return {"sc": sc, "kd": kd, "ms": ms, "bs": bs}


def is_nontrivial(case, obs):
    nonempty = [o for o in obs if o["idx"]]
    if len(nonempty) >= 2:
        return True
    if nonempty:
        lo, hi = nonempty[0]["idx"][0], nonempty[0]["idx"][-1]
        return any(s <= 0 for s in case["sc"][lo - 1:]) and len(case["sc"]) > hi - lo + 1
    return case["ms"] <= case["bs"] and any(s > 0 for s in case["sc"])


def classify(case, failed):
    return ""


def _rerun(case):
    den = case.get("den", 1)
    return {"in": case["in"], "obs": run_real(case["in"], den)}


REPLAY = ("Trace_Segmenter", "Trace_Segmenter.cfg", _rerun, ("den",))

def run(ctx: Ctx):
    quick = ctx.tier == "quick"
    rng = random.Random(ctx.seed * 7919 + 13)
    ctx.rule = ("inputs: (i) the InputSpace of MC_Segmenter exported by TLC (all score sequences up to MaxLen over "
                "{-3,-1,0,1,2,3} x ms{1,2,3} x bs{0,1,2,3,5}), (ii) random sequences of length 5..40 in three styles "
                "(small alphabet, realistic sp/dp/su scores, runs and valleys), (iii) one-decimal score lists with x, -x cancellations at run starts; each is run through the real "
                "AlignmentSegmentsFactory and judged by TLC (Trace_Segmenter: C13 clauses + Impl replay). "
                "non-trivial = distinct input whose real result has >= 2 segments, or one segment followed/preceded by "
                "rejected positions, or an empty result with ms<=bs although a positive pair exists")
    ctx.assumptions = ["domain of C13: ms >= 1, bs >= 0 (bs = 0: see Segmenter.tla - strict reading of 'falls', no right-maximality), unpaired positions score <= 0 (DESIGN.md 4/C13)",
                       "the converse of the last sentence is demanded only where ms <= bs",
                       "scores are integers or halves (exact binary floats), or one-decimal values whose only exact ties are x, -x "
                       "cancellations at the start of a run (see decimal_tie_case): there decimal and float evaluation agree"]

    # (A) exhaustive model check, in the background while the real code is driven
    mc_res = {}

    def mc():
        try:
            cfg = "MC_Segmenter.cfg" if quick else "MC_Segmenter_thorough.cfg"
            mc_res["r"] = tlc.run_tlc("MC_Segmenter", cfg, ctx.workdir, workers=4, coverage=False)
            mc_res["stale"] = tlc.run_tlc("MC_Segmenter", "MC_Segmenter_stale.cfg", ctx.workdir, workers=2,
                                          allow_violation=True)
        except Exception as e:  # re-raised in the main thread
            mc_res["err"] = e

    th = threading.Thread(target=mc)
    th.start()

    # (B) TLC-exported space + random cases through the real code
    space = batch.export_space("MC_Segmenter", "Export_Segmenter.cfg" if quick else "Export_Segmenter_thorough.cfg",
                               ctx.workdir)
    cases = [(c, 1) for c in space]
    n_rand = 4000 if quick else 150000
    for k in range(n_rand):
        cases.append((random_case(rng), 2 if k % 5 == 0 else 1))
    n_dec = 0
    for k in range(n_rand // 4):
        c = decimal_tie_case(rng)
        if c is not None:
            cases.append((c, 10))
            n_dec += 1
    ctx.notes["one_decimal_cases_with_cancellation_at_run_start"] = n_dec
    records = []
    for case, den in cases:
        obs = run_real(case, den)
        records.append({"in": case, "obs": obs, "den": den})
        if is_nontrivial(case, obs):
            ctx.nontrivial((tuple(case["sc"]), tuple(case["kd"]), case["ms"], case["bs"]))
    expected = sum(len(r["in"]["sc"]) + 3 for r in records)

    # (C) TLC judges every real result
    verdicts, r = batch.validate("Trace_Segmenter", "Trace_Segmenter.cfg", ctx.workdir, records, expected)
    ctx.add_traces(len(records))
    ctx.notes["trace_validation"] = {"states": r.distinct, "wall_s": round(r.wall_s, 1),
                                     "from_tlc_exported_space": len(space), "random": n_rand}
    for tid, (failed, drift) in sorted(verdicts.items()):
        if failed:
            ctx.violation(records[tid], failed, classify(records[tid]["in"], failed),
                          what=f"sc={records[tid]['in']['sc'][:12]} ms={records[tid]['in']['ms']} "
                               f"bs={records[tid]['in']['bs']}")
        elif drift:
            ctx.add_drift(1, records[tid])
    multi = [r_ for r_ in records if len([o for o in r_["obs"] if o["idx"]]) >= 2]
    for s in (multi[:2] + records[:1]):
        ctx.sample(s)

    th.join()
    if "err" in mc_res:
        raise mc_res["err"]
    ctx.add_model("MC_Segmenter", mc_res["r"])
    ctx.exhaustive = True
    stale = mc_res["stale"]
    ctx.notes["named_deviation_Break_KeepsStale"] = (
        "TLC shows the converse fails with bs < ms (stale currentSegment): "
        + ("counter-example found as expected" if stale.invariant_violated else "NOT reproduced"))
    if not stale.invariant_violated:
        raise tlc.MachineryError("the stale-currentSegment deviation is no longer reachable in the model")
