"""The seeding stage (OpticalMap.getInitialAlignment) against spec/Seeding.tla; shared by C06 (exact loci are seeded),
C16 (seeds are bin centres, the kept ones the highest) and C11 (reverse strand of a lattice query = its mirror image).

(A) TLC: MC_Seeding - the state machine (vectorise+blur, exact Dice correlation, local maxima incl. plateaus, height
    filter, distance filter, top-peaksCount) satisfies the contract the later models assume, plus the lemmas
    (planted lattice copy => sample 1 = global maximum; mirror image = reversed vector) and two expected violations
    that show the lattice preconditions are needed.
(B) the small inputs TLC prints (Export_Seeding.cfg) and generated larger ones (lattice / off-lattice, planted windows,
    repeats, too long / sparse references, tied heights, default-like parameters) through the REAL getInitialAlignment.
(C) Trace_Seeding: TLC replays Seeding's actions on every real result (choices bound by the logged seeds) and judges it.
"""
from __future__ import annotations

import random
import threading

from lib import batch, tlc
from lib.core import Ctx
from lib import repo  # noqa: F401

SC = 100000
_GEN = {}
_N = [0]


def run_real_refine(inp):
    """InitialAlignment.refine around one seed (the secondary correlation); the InitialAlignment is built the way
    getInitialAlignment builds it, the seed position is given"""
    import numpy as np
    from src.correlation.optical_map import OpticalMap, InitialAlignment
    from src.correlation.sequence_generator import SequenceGenerator
    _N[0] += 2
    sg = _GEN.setdefault((inp["res"], inp["blur"]), SequenceGenerator(inp["res"], inp["blur"]))
    ref = OpticalMap(1000 + _N[0], inp["ref"]["len"], list(inp["ref"]["pos"]))
    qry = OpticalMap(1001 + _N[0], inp["qry"]["len"], list(inp["qry"]["pos"]))
    ia = InitialAlignment(np.array([]), qry, ref, [], inp["rev"], 0.)
    try:
        cr = ia.refine(inp["peak"], sg, inp["margin"], float(inp["pt"]))
    except Exception as e:       # noqa: BLE001
        return {"exc": type(e).__name__, "empty": False, "corr": [], "peaks": []}
    return {"exc": "", "empty": False, "corr": [int(round(float(v) * SC)) for v in cr.correlation],
            "peaks": [[int(p.position), int(round(float(p.height) * SC)), int(round(float(p.score) * SC))] for p in cr.peaks]}


def refine_case(rng: random.Random):
    """a seed next to a planted / noisy copy, default-like and small parameters"""
    c = random_case(rng)
    while c["qry"]["len"] > c["ref"]["len"] or len(c["qry"]["pos"]) < 2:
        c = random_case(rng)
    res = c["res"]
    refpos = c["ref"]["pos"]
    anchor = rng.choice(refpos)
    peak = anchor + rng.choice([0, 0, res, -res, 3 * res, -2 * res + 1, 7])
    if rng.random() < 0.1:
        peak = rng.choice([0, res // 2, refpos[-1] - c["qry"]["len"] // 2])     # near either end: negative window start / short window
    margin = rng.choice([0, res, 3 * res, 8 * res, 20 * res])
    ones = len(c["qry"]["pos"])
    pt = rng.choice([0, 1, 2, ones, ones - 1, max(1, ones // 2), 3 * ones])
    return {"ref": c["ref"], "qry": c["qry"], "rev": c["rev"], "res": res, "blur": c["blur"], "peak": int(peak),
            "margin": int(margin), "pt": int(pt), "pcount": 10, "md": res}


def realistic_refine_case(rng: random.Random):
    """default secondary parameters (100 / 4 / 16000 / 27) around the true locus of a molecule of 30-45 labels"""
    c = realistic_case(rng)
    while len(c["qry"]["pos"]) < 30:
        c = realistic_case(rng)
    xs = c["ref"]["pos"]
    peak = rng.choice(xs[5:-40]) + rng.randint(-700, 700)
    return {"ref": c["ref"], "qry": c["qry"], "rev": c["rev"], "res": 100, "blur": 4, "peak": int(peak), "margin": 16000,
            "pt": 27, "pcount": 10, "md": 100}


def run_real(inp):
    if "peak" in inp:
        return run_real_refine(inp)
    from src.correlation.optical_map import OpticalMap, EmptyInitialAlignment
    from src.correlation.sequence_generator import SequenceGenerator
    _N[0] += 2
    # one generator per (resolution, blur) for all cases, as the coordinator keeps its primary generator for a run
    sg = _GEN.setdefault((inp["res"], inp["blur"]), SequenceGenerator(inp["res"], inp["blur"]))
    ref = OpticalMap(1000 + _N[0], inp["ref"]["len"], list(inp["ref"]["pos"]))
    qry = OpticalMap(1001 + _N[0], inp["qry"]["len"], list(inp["qry"]["pos"]))
    try:
        ia = qry.getInitialAlignment(ref, sg, inp["md"], inp["pcount"], inp["rev"])
    except Exception as e:       # noqa: BLE001
        return {"exc": type(e).__name__, "empty": False, "corr": [], "peaks": []}
    return {"exc": "", "empty": isinstance(ia, EmptyInitialAlignment),
            "corr": [int(round(float(v) * SC)) for v in ia.correlation],
            "peaks": [[int(p.position), int(round(float(p.height) * SC)), int(round(float(p.score) * SC))]
                      for p in ia.peaks]}


def _ref(rng, n, lo, hi, res, lattice):
    xs, x = [], rng.randint(0, 3) * res
    for _ in range(n):
        xs.append(x)
        g = rng.randint(lo, hi)
        x += (g // res + 1) * res if lattice else g
    return xs


def random_case(rng: random.Random):
    u = rng.random()
    res = rng.choice([1, 2, 5, 100, 700, 1400])
    blur = rng.choice([0, 1, 1, 2])
    lattice = rng.random() < 0.6
    n = rng.randint(6, 40)
    unit = max(res, 10)
    refpos = _ref(rng, n, 2 * unit, 9 * unit, res, lattice)
    if rng.random() < 0.3:       # a tandem repeat: the same gap pattern three times (several exact / tied loci)
        pat = [rng.randint(2, 6) * unit for _ in range(rng.randint(2, 4))]
        x = refpos[-1]
        for g in pat * 3:
            x += (g // res + 1) * res if lattice else g
            refpos.append(x)
        for _ in range(rng.randint(2, 8)):
            x += rng.randint(2 * unit, 9 * unit) // res * res + res
            refpos.append(x)
    tail = rng.choice([0, 0, 1, 5 * unit, 200 * unit])
    ref = {"len": refpos[-1] + 1 + tail, "pos": refpos}
    rev = rng.random() < 0.5
    if u < 0.55:                 # planted window (exact copy), either strand
        w = rng.randint(2, min(14, len(refpos) - 2))
        a = rng.choice([0, 1, 1, len(refpos) - w, len(refpos) - w - 1, rng.randint(0, len(refpos) - w)])
        a = max(0, min(a, len(refpos) - w))
        cut = [refpos[i] - refpos[a] for i in range(a, a + w)]
        if rev:
            cut = sorted(cut[-1] - v for v in cut)
        qry = {"len": cut[-1] + 1, "pos": cut}
    elif u < 0.75:               # noisy copy: labels moved / dropped
        w = rng.randint(3, min(14, len(refpos) - 1))
        a = rng.randint(0, len(refpos) - w)
        cut = sorted({max(0, refpos[i] - refpos[a] + rng.choice([0, 0, res, -res, 3, -2])) for i in range(a, a + w)
                      if rng.random() < 0.85} | {0})
        qry = {"len": cut[-1] + 1 + rng.choice([0, 0, 7]), "pos": cut}
    elif u < 0.85:               # unrelated molecule
        qp = _ref(rng, rng.randint(1, 10), 2 * unit, 9 * unit, res, lattice)
        qp = [v - qp[0] for v in qp]
        qry = {"len": qp[-1] + 1, "pos": qp}
    elif u < 0.93:               # longer than the labelled part of the reference, not longer than the contig (D11), or the whole reference
        if rng.random() < 0.5:
            qp = [v - refpos[0] for v in refpos]
            qry = {"len": qp[-1] + 1, "pos": qp}
        else:
            ref["len"] = refpos[-1] + 1 + 400 * unit
            qp = [0, refpos[-1] + rng.randint(1, 50) * unit]
            qry = {"len": qp[-1] + 1, "pos": qp}
    else:                        # longer than the contig
        qp = [0, ref["len"] + rng.randint(0, 5) * unit]
        qry = {"len": qp[-1] + 1, "pos": qp}
    md = rng.choice([res, res, 2 * res, 3 * res, 14 * res, 15 * res - 1, res + 1])
    if rng.random() < 0.04:
        md = max(1, res - 1) if res > 1 else 1      # distance < 1: the documented abort of find_peaks
    return {"ref": ref, "qry": qry, "rev": rev, "res": res, "blur": blur, "md": md, "pcount": rng.choice([1, 2, 3, 3, 10])}


def realistic_case(rng: random.Random):
    """default parameters (1400 / 1 / 20000 / 3) on a contig of 80-200 labels, planted or noisy molecule"""
    n = rng.randint(80, 200)
    xs, x = [], rng.randint(0, 30000)
    for _ in range(n):
        xs.append(x)
        x += 2000 + int(rng.expovariate(1 / 8000.))
    w = rng.randint(15, 40)
    a = rng.randint(2, n - w - 2)
    cut = [xs[i] - xs[a] for i in range(a, a + w)]
    if rng.random() < 0.5:
        cut = sorted({max(0, v + rng.randint(-400, 400)) for v in cut} | {0})
    rev = rng.random() < 0.5
    if rev:
        cut = sorted(cut[-1] - v for v in cut)
    return {"ref": {"len": xs[-1] + rng.randint(1, 50000), "pos": xs}, "qry": {"len": cut[-1] + 1, "pos": cut},
            "rev": rev, "res": 1400, "blur": 1, "md": 20000, "pcount": 3}


def _rerun(case):
    return {"inp": case["inp"], "sc": SC, "obs": run_real(case["inp"])}


REPLAY = ("Trace_Seeding", "Trace_Seeding.cfg", _rerun, ())


def run_part(ctx: Ctx, mine: str, model: bool = True):
    """mine = the property whose clauses count as violations here ('C06' | 'C16' | 'C07' | 'C11'); other clauses are noted"""
    quick = ctx.tier == "quick"
    rng = random.Random(ctx.seed * 7919 + 61)
    mc_res = {}

    def mc():
        try:
            mc_res["r"] = tlc.run_tlc("MC_Seeding", "MC_Seeding.cfg" if quick else "MC_Seeding_thorough.cfg", ctx.workdir,
                                      workers=6 if quick else 12, heap_gb=8)
            mc_res["refine"] = tlc.run_tlc("MC_Refine", "MC_Refine.cfg", ctx.workdir, workers=6 if quick else 12, heap_gb=8)
            probe = tlc.run_tlc("MC_Refine", "MC_Refine_x_probe.cfg", ctx.workdir, workers=2, allow_violation=True)
            if probe.invariant_violated != "Inv_ProbeNoRefinedPeak":
                raise tlc.MachineryError("MC_Refine: no behaviour ends with a refined peak (the invariants would be vacuous)")
            for inv in ("Inv_MirrorWithoutLattice", "Inv_PlantedWithoutLattice"):
                x = tlc.run_tlc("MC_Seeding", f"MC_Seeding_x_{inv}.cfg", ctx.workdir, workers=2, allow_violation=True)
                if x.invariant_violated != inv:
                    raise tlc.MachineryError(f"MC_Seeding: the expected violation of {inv} was not found "
                                             f"(the lattice precondition would be vacuous)")
        except Exception as e:       # noqa: BLE001
            mc_res["err"] = e

    th = threading.Thread(target=mc)
    if model:
        th.start()
    space = batch.export_by_print("MC_Seeding", "Export_Seeding.cfg", ctx.workdir, workers=4)
    rng.shuffle(space)
    space = space[:1500 if quick else 20000]
    rspace = batch.export_by_print("MC_Refine", "Export_Refine.cfg", ctx.workdir, workers=4)
    rng.shuffle(rspace)
    rspace = rspace[:1000 if quick else 15000]
    space = space + rspace
    cases = space + [random_case(rng) for _ in range(700 if quick else 12000)] \
        + [realistic_case(rng) for _ in range(10 if quick else 150)] \
        + [refine_case(rng) for _ in range(500 if quick else 9000)] \
        + [realistic_refine_case(rng) for _ in range(6 if quick else 100)]
    records = [{"inp": c, "sc": SC, "obs": run_real(c)} for c in cases]
    verdicts, r = batch.validate("Trace_Seeding", "Trace_Seeding.cfg", ctx.workdir, records, name="seeding.ndjson")
    ctx.add_traces(len(records))
    kinds = {k: v for k, v in batch.KIND_COUNTS.items() if k in ("empty", "aborted", "outside", "ties", "cut", "exact_locus", "refine")}
    note = {"real_calls_validated": len(records), "from_tlc_exported_space": len(space), "states": r.distinct,
            "wall_s": round(r.wall_s, 1), "situations_replayed": kinds, "other_property_clauses": {}, "drift": 0}
    for rec in records:
        o = rec["obs"]
        if o["peaks"] and len(o["corr"]) > 3:
            ctx.nontrivial(("seeding", repr(rec["inp"])))
    for tid, (failed, drift) in sorted(verdicts.items()):
        rec = records[tid]
        my = [c for c in failed if c.startswith(mine + ":")]
        for c in failed:
            if not c.startswith(mine + ":"):
                note["other_property_clauses"][c] = note["other_property_clauses"].get(c, 0) + 1
        if my:
            ctx.violation(rec, my, "", what=f"getInitialAlignment {str(rec['inp'])[:200]} -> {str(rec['obs'])[:120]}")
        elif drift:
            note["drift"] += 1
            ctx.add_drift(1, {"seeding": rec["inp"], "drift": drift})
    ctx.notes["seeding_stage"] = note
    ctx.sample({"seeding": next((x for x in reversed(records) if len(x["obs"]["peaks"]) >= 2), records[-1])}, limit=4)
    if model:
        th.join()
        if "err" in mc_res:
            raise mc_res["err"]
        ctx.add_model("MC_Seeding", mc_res["r"])
        ctx.add_model("MC_Refine", mc_res["refine"])
