"""End-to-end exploration shared by the pipeline-level parts of C01, C02, C03, C18 (record level, Trace_Xmap)
and by C05, C07, C08 (file level, Trace_Pipeline)."""
from __future__ import annotations

import os
import random
import shutil
from typing import Dict, List

from lib import batch, gen, pipecases, pipeline, tlc
from lib.core import Ctx

MODES = ["best", "separate", "joined", "all"]

PARAM_VECTORS = [
    {},
    {"-p": 1},
    {"-p": 5, "-diff": 1000000},
    {"-d": 3000, "-ms": 2000, "-bs": 2500},
    {"-sp": 600, "-dp": 0.5, "-su": -100, "-ms": 600, "-bs": 600},
    {"-dp": 2.0, "-su": -500, "-d": 500, "-diff": 10000},
    {"-diff": 0, "-p": 2},
    {"-sj": 0.5, "-ss": 1},
]


def hit_codes(s: str) -> List[int]:
    return [ord(c) if ord(c) < 256 else 63 for c in s]


def rec_for_tla(r: Dict) -> Dict:
    return {"id": r["id"], "q": r["q"], "r": r["r"], "qs": r["qs"], "qe": r["qe"], "rs": r["rs"], "re": r["re"],
            "ori": r["ori"], "conf": r["conf"], "hit": hit_codes(r["hit"]), "qlen": r["qlen"], "rlen": r["rlen"],
            "rest": r["rest"], "pairs": r["pairs"]}


NULLMAP = {"id": 0, "len": 0, "x": []}


def map_for_tla(m) -> Dict:
    return {"id": m["id"], "len": m["len"], "x": m["x"]} if m else NULLMAP


LIM = 2 ** 31 - 1


def rebase_line(line: Dict) -> Dict:
    """TLC integers are 32-bit and coordinates are in deci-bp: for references beyond ~200 Mb all reference-side
    coordinates of a line are given minus a constant B (a multiple of 10^7 deci-bp, so truncation to whole bp is not
    affected). The record clauses are translation invariant on the reference axis. A value that still does not fit
    (e.g. a read-back coordinate that wrapped around) is replaced by a sentinel that equals nothing."""
    xs = line["ref"]["x"]
    if not xs or max(max(xs), line["ref"]["len"], line["rec"]["rlen"]) <= 2 * 10 ** 9:
        return line
    B = (min(xs) // 10 ** 7) * 10 ** 7

    def f(v, b=B):
        w = v - b
        return w if -LIM <= w <= LIM else -999999999

    out = dict(line)
    if out.get("kind") == "readbackg":      # rows of the harness' own making are small; never rebased
        out["kind"] = "readback"
        out.pop("given", None)
    out["ref"] = {"id": line["ref"]["id"], "len": f(line["ref"]["len"]), "x": [f(v) for v in xs]}
    rec = dict(line["rec"])
    for k in ("rs", "re"):
        rec[k] = f(rec[k])
    # RefLen is only ever compared with the reference length and with its own read-back value: when the written value is
    # far from the reference's coordinates (so certainly not the reference length) it gets a base of its own, chosen so
    # that the encoded value stays different from the encoded reference length; written and read-back value share it
    Bl = B
    if not -LIM <= rec["rlen"] - B <= LIM:
        Bl = (rec["rlen"] // 10 ** 7) * 10 ** 7
        if rec["rlen"] - Bl == out["ref"]["len"]:
            Bl -= 10 ** 8
    rec["rlen"] = f(rec["rlen"], Bl)
    out["rec"] = rec
    if "rb" in line:
        rb = dict(line["rb"])
        for k in ("rs", "re"):
            rb[k] = f(rb[k], B // 10)
        rb["rlen"] = f(rb["rlen"], Bl // 10)
        rb["rpos"] = [f(v) for v in rb["rpos"]]
        out["rb"] = rb
    out["rebased_by_deci_bp"] = B
    return out


SELECTION_NOTES: List[str] = []


def read_back(path: str, rp: str, qp: str):
    """the project's own reader, wired as Program wires it"""
    from src.parsers.cmap_reader import CmapReader
    from src.parsers.xmap_reader import XmapReader
    from src.parsers.xmap_alignment_pair_parser import XmapAlignmentPairWithDistanceParser
    with open(rp) as f:
        refs = CmapReader().readReferences(f)
    with open(qp) as f:
        qrys = [q.trim() for q in CmapReader().readQueries(f)]
    reader = XmapReader(XmapAlignmentPairWithDistanceParser(refs, qrys))
    # the reader is a long-lived object (Program keeps one; the sv and diagnostic tools read several files with one
    # reader): before it reads the file, the SAME reader reads the same path while it holds an earlier content (the
    # header and the first record only, as after a shorter earlier run with the same -o); the file is then put back
    # by plain file I/O and read again - what counts is the second answer, which has to describe what is on disk now
    with open(path) as f:
        text = f.read()
    head = [ln for ln in text.splitlines(True) if ln.startswith("#")]
    body = [ln for ln in text.splitlines(True) if not ln.startswith("#")]
    with open(path, "w") as f:
        f.write("".join(head + body[:1]))
    try:
        with open(path) as f:
            reader.readAlignments(f)
    except Exception:       # noqa: BLE001   (the earlier content is not what is judged)
        pass
    finally:
        with open(path, "w") as f:
            f.write(text)
    with open(path) as f:
        als = reader.readAlignments(f)
    # reading with a selection (used by the plotting / benchmark tools; not part of C18's statement: reported as drift)
    SELECTION_NOTES.clear()
    try:
        with open(path) as f:
            none = reader.readAlignments(f, queryIds=[987654321])
        if len(none) != 0:
            SELECTION_NOTES.append(f"selection of an absent query id returned {len(none)} alignments")
        if als:
            q0 = als[0].queryId
            with open(path) as f:
                some = reader.readAlignments(f, queryIds=[q0])
            if len(some) != sum(1 for a in als if a.queryId == q0):
                SELECTION_NOTES.append("selection by query id returned another number of alignments")
    except Exception as e:
        SELECTION_NOTES.append("reading with a selection raised " + type(e).__name__)
    out = []
    for a in als:
        c = float(a.confidence) * 100
        out.append({"id": int(a.alignmentId), "q": pipeline.qid(a.queryId), "r": int(a.referenceId),
                    "qs": int(a.queryStartPosition), "qe": int(a.queryEndPosition),
                    "rs": int(a.referenceStartPosition), "re": int(a.referenceEndPosition),
                    "rev": bool(a.reverseStrand), "conf100": int(round(c)) if abs(c - round(c)) < 1e-6 else -1,
                    "hit": hit_codes(a.cigarString if isinstance(a.cigarString, str) else ""),
                    "qlen": int(a.queryLength), "rlen": int(a.referenceLength),
                    "pairs": [[int(p.reference.siteId), int(p.query.siteId)] for p in a.alignedPairs],
                    "rpos": [int(round(float(p.reference.position) * 10)) for p in a.alignedPairs],
                    "qpos": [int(round(float(p.query.position) * 10)) for p in a.alignedPairs]})
    return out


def score_lines(rows, refs: Dict, qrys: Dict, extra: Dict, parsed_main, tag) -> List[Dict]:
    """Trace_RowScore lines for the rows Program.run() returned (the records of the main file, in order)"""
    from fractions import Fraction
    dp = Fraction(float(extra.get("-dp", 1.0))).limit_denominator(8)
    unit = 10 * dp.denominator
    par = {"sp": 10 * int(extra.get("-sp", 1000)), "dpnum": dp.numerator, "dpden": dp.denominator,
           "su": 10 * int(extra.get("-su", -250)), "maxD": 10 * int(extra.get("-d", 1500)),
           "ms": 1, "bs": 1, "mnum": 1, "mden": 1, "variant": 0, "scale": 1}
    recs = [r for r in parsed_main["records"] if not r.get("malformed")]
    out = []

    def d10(v):
        return int(round(float(v) * 10))

    for k, row in enumerate(rows):
        ref, qry = refs.get(int(row.referenceId)), qrys.get(pipeline.qid(row.queryId))
        if ref is None or qry is None or k >= len(recs):
            continue
        segs = []
        for s_ in row.segments:
            pos = []
            for p in s_.positions:
                pr = pipeline._pos(p)
                pos.append({"k": pr["k"], "r": [pr["r"][0], d10(pr["r"][1])], "q": [pr["q"][0], d10(pr["q"][1])],
                            "sh": d10(pr["sh"]), "sc": int(round(pr["sc"] * unit))})
            segs.append({"peak": d10(s_.peak.position), "pos": pos})
        x0 = qry["x"][0]
        # the (part of the) molecule this row is an alignment of: a second-pass row aligns a FRAGMENT (a range of label
        # numbers, cut by index), and in 'best' mode such a row no longer says so; the labels demonstrably handed to
        # the aligner are those between the smallest and the largest label number that occurs in the row
        present = [p_["q"][0] for g in segs for p_ in g["pos"] if p_["k"] in ("P", "Q")]
        lo_q, hi_q = (min(present), max(present)) if present else (1, len(qry["x"]))
        out.append({"in": {"ref": ref["x"], "qry": [v - x0 for v in qry["x"][lo_q - 1:hi_q]], "qlen": qry["x"][-1] - x0 + 1,   # the model mirrors with (qlen - 1) - x in its own unit (deci-bp here)
                           "shift": lo_q - 1, "rev": bool(row.reverseStrand), "peaks": [], "par": par},
                    "segs": segs, "conf": int(round(float(row.confidence) * unit)), "written": recs[k]["conf"],
                    "tag": dict(tag, query=pipeline.qid(row.queryId), rest=recs[k]["rest"], segments=len(segs))})
    return out


def fragment_lines(rows, qp: str, tag) -> List[Dict]:
    """Trace_Fragments lines: getUnalignedFragments of every first-pass row (rows of the 'separate' main file)"""
    from src.parsers.cmap_reader import CmapReader
    from src.alignment.alignment_position import AlignedPair
    with open(qp) as f:
        queries = [q.trim() for q in CmapReader().readQueries(f)]
    byid = {int(q.moleculeId): q for q in queries}

    def d10(v):
        return int(round(float(v) * 10))

    out = []
    for row in rows:
        q = byid.get(int(row.queryId))
        if q is None:
            continue
        pairs = sorted(p for s_ in row.segments for p in s_.positions if isinstance(p, AlignedPair))
        if not pairs:
            continue
        line = {"xs": [d10(v) for v in q.positions], "qlen": d10(q.length),
                "row": {"qs": d10(row.queryStartPosition), "qe": d10(row.queryEndPosition), "rev": bool(row.reverseStrand),
                        "firstQ": int(pairs[0].query.siteId), "lastQ": int(pairs[-1].query.siteId)},
                "obs": [], "status": "ok", "tag": dict(tag, query=pipeline.qid(row.queryId))}
        try:
            for fr in row.getUnalignedFragments(queries):
                line["obs"].append({"x": [d10(v) for v in fr.positions], "shift": int(fr.shift), "len": d10(fr.length)})
        except Exception as e:
            line["status"] = "exc:" + type(e).__name__
        out.append(line)
    return out


def far_input(rng: random.Random, n_qry: int) -> Dict:
    """one reference whose labels lie beyond 2^31 bp (a valid CMAP: positions are plain floats) and a few queries"""
    xs = gen.make_reference(rng, 80, min_gap=2000, mean_gap=9000)
    base = 2 ** 31 + rng.randint(10 ** 5, 10 ** 6)
    xs = [v + base for v in xs]
    ref = {"id": 2, "len": (xs[-1] + 50000) * 10, "x": [v * 10 + rng.randint(0, 9) for v in xs], "bp": xs}
    qrys = []
    for k in range(n_qry):
        w = rng.randint(15, 25)
        w0 = rng.randint(4, 80 - w - 4)
        c, _ = gen.cut_query(rng, xs, w0, w0 + w, sigma=100)
        if k % 2:
            c = gen.mirror_query(c)
        qrys.append({"id": 5 + k, "len": (c[-1] + 100) * 10, "x": [v * 10 for v in c], "kind": "far", "ref": 2,
                     "mirrored": bool(k % 2)})
    return {"refs": [ref], "qrys": qrys}


def explore_input(seed: int, idx: int, modes: List[str], n_qry: int, with_readback: bool, record: bool,
                  kinds=None, keep_rows: bool = False) -> Dict:
    # every 5th input: query ids 2^53 + small id (valid int64 ids that collide pairwise when cast to float64)
    pipeline.QID_BASE = 2 ** 53 if idx % 5 == 4 else 0
    try:
        return _explore_input(seed, idx, modes, n_qry, with_readback, record, kinds, keep_rows)
    finally:
        pipeline.QID_BASE = 0


def _explore_input(seed: int, idx: int, modes: List[str], n_qry: int, with_readback: bool, record: bool,
                   kinds=None, keep_rows: bool = False) -> Dict:
    """one generated input, run in every mode in process; returns Trace_Xmap lines and a per-mode summary"""
    rng = random.Random(seed * 100003 + idx)
    if kinds == ["far"]:
        inp = far_input(rng, n_qry)
    elif kinds == ["shortcontigs"]:
        # many contigs only a few kb longer than the molecule cut from them, molecules given from either end: on the wrong
        # strand the seeding correlation often has its maximum on the border (no peak at all)
        inp = pipecases.make_input(rng, n_refs=1, n_qry=1, kinds=["exact"], small_ids=(idx % 2 == 1),
                                   short_contigs=n_qry)
    else:
        # every 4th input is grid aligned (whole base pairs on a 100 bp lattice): equal label patterns then score exactly
        # the same (ties between rows of one query)
        grid = idx % 4 == 2
        inp = pipecases.make_input(rng, n_refs=rng.choice([1, 2, 3]), n_qry=n_qry, kinds=kinds,
                                   repeats=rng.random() < 0.3, small_ids=(idx % 3 == 1),
                                   decimals=not grid, lattice=100 if grid else 0, twins=(idx % 4 == 1),
                                   short_contigs=2 if idx % 3 == 0 else 0, labelless=(idx % 5 == 2),
                                   extra_refs=34 if idx % 8 == 7 else 0)     # > 64 seeding correlations per query
    extra = PARAM_VECTORS[idx % len(PARAM_VECTORS)]
    wd = os.path.join(os.environ.get("VERIF_WORK", "/verif/work"), f"pipe-{os.getpid()}-{seed}-{idx}")
    os.makedirs(wd, exist_ok=True)
    lines: List[Dict] = []
    summary = {"idx": idx, "extra": extra, "modes": {}, "qrys": [{"id": q["id"], "kind": q["kind"]} for q in inp["qrys"]],
               "query_id_base": pipeline.QID_BASE}
    try:
        rp, qp = pipecases.write_input(wd, inp, "in", shuffle_rng=rng if idx % 3 == 0 else None)
        refs = {r["id"]: r for r in inp["refs"]}
        qrys = {q["id"]: q for q in inp["qrys"]}
        for mode in modes:
            res = pipecases.run_once(wd, rp, qp, "o_" + mode, mode, extra, record=record)
            ms = {"status": res["status"], "log": res["log"][-400:], "files": {}, "digest": res["digest"],
                  "recorded": res["recorded"] if record else []}
            for name, parsed in res["files"].items():
                if parsed is None:
                    ms["files"][name] = None
                    continue
                recs = parsed["records"]
                ms["files"][name] = {"header_ok": parsed["header_ok"],
                                     "malformed": [r["malformed"] for r in recs if r.get("malformed")],
                                     "records": [rec_for_tla(r) for r in recs if not r.get("malformed")]}
                rb = None
                if with_readback:
                    try:
                        rb = read_back(parsed["path"], rp, qp)
                        ms["files"][name]["readback"] = "ok"
                        ms["files"][name]["readback_n"] = len(rb)
                        ms["files"][name]["selection_notes"] = list(SELECTION_NOTES)
                    except Exception as e:
                        ms["files"][name]["readback"] = "exc:" + type(e).__name__
                        ms["files"][name]["readback_n"] = -1
                for kth, r in enumerate([x for x in recs if not x.get("malformed")], start=1):
                    line = {"kind": "record", "ref": map_for_tla(refs.get(r["r"])), "qry": map_for_tla(qrys.get(r["q"])),
                            "rec": rec_for_tla(r), "kth": kth,
                            "tag": {"input": idx, "mode": mode, "file": name}}
                    if rb is not None and kth <= len(rb):
                        line["kind"] = "readback"
                        line["rb"] = rb[kth - 1]
                    lines.append(line)
            if keep_rows and res["rows"] is not None and mode == "separate":
                summary.setdefault("fragment_lines", []).extend(
                    fragment_lines(res["rows"].rows, qp, {"input": idx, "mode": mode}))
            if keep_rows and res["rows"] is not None and res["files"].get("main"):
                summary.setdefault("score_lines", []).extend(
                    score_lines(res["rows"].rows, refs, qrys, extra, res["files"]["main"],
                                {"input": idx, "mode": mode}))
            summary["modes"][mode] = ms
    finally:
        shutil.rmtree(wd, ignore_errors=True)
    summary["inp"] = {"refs": [map_for_tla(r) for r in inp["refs"]], "qrys": [map_for_tla(q) for q in inp["qrys"]]}
    return {"lines": lines, "summary": summary}


def _worker(args):
    return explore_input(*args)


def explore(ctx: Ctx, n_inputs: int, modes=None, n_qry: int = 10, with_readback: bool = False, record: bool = False,
            kinds=None, salt: int = 0, keep_rows: bool = False):
    import multiprocessing as mp
    os.environ["VERIF_WORK"] = ctx.workdir
    jobs = [(ctx.seed * 77 + salt, i, modes or MODES, n_qry, with_readback, record, kinds, keep_rows) for i in range(n_inputs)]
    with mp.get_context("fork").Pool(min(14, len(jobs))) as pool:
        res = pool.map(_worker, jobs)
    return res


def validate_records(ctx: Ctx, results, prefix: str):
    """Trace_Xmap over every record line; returns [(line, my failed clauses, drift)]"""
    lines = [ln for r in results for ln in r["lines"]]
    if not lines:
        raise tlc.MachineryError("the pipeline produced no record at all")
    payload = [{k: v for k, v in rebase_line(ln).items() if k not in ("tag", "rebased_by_deci_bp")} for ln in lines]
    verdicts, r = batch.validate("Trace_Xmap", "Trace_Xmap.cfg", ctx.workdir, payload)
    ctx.add_traces(len(lines))
    ctx.states += r.distinct
    ctx.transitions += r.generated
    out = []
    for tid, (failed, drift) in sorted(verdicts.items()):
        mine = [c for c in failed if c.startswith(prefix + ":")]
        out.append((lines[tid], mine, drift, failed))
    return lines, out, r
