"""C11 - mirroring a query mirrors its first-pass alignment.

(A) TLC: MC_Mirror - two runs of the composed Aligner.align model (query / mirror image on the other strand, same
    seeds) give mirror-image rows on every small lattice input; with the pinned reverse-strand join score (D10)
    TLC finds an on-lattice counter-example (MC_Mirror_d10.cfg).
(B/C) lattice CMAP sets (all coordinates multiples of lcm(primaryResolution, secondaryResolution), maxPairDistance
    below half the step) in which every query is accompanied by its mirror image; 'separate' mode; TLC
    (Trace_Mirror) compares the two first-pass records.
"""
from __future__ import annotations

import multiprocessing as mp
import os
import random
import shutil

from lib import batch, gen, pipecases, tlc
from lib.core import Ctx
from props import pipe_common

STEP = 1400   # lcm(1400, 100): default primary / secondary resolution


def lattice_input(rng: random.Random, inverted_repeat: bool = False, decoy: bool = False, dense: bool = False):
    refs = []
    blocks = {}
    for rid in (3, 8):
        n = rng.randint(70, 140)
        x = STEP * rng.randint(2, 10)
        xs = []
        for _ in range(n):
            xs.append(x)
            x += STEP * (2 + min(int(rng.expovariate(1 / 4.5)), 30))
        if inverted_repeat and rid == 3:
            # an inverted repeat: the block of labels b0..b0+nb-1 occurs again further along the same contig, read from
            # the other end; a molecule from inside the block has two equally good placements, on opposite strands
            nb = rng.randint(26, 40)
            b0 = rng.randint(5, n - nb - 5)
            block = xs[b0:b0 + nb]
            start = xs[-1] + STEP * rng.randint(3, 12)
            xs = xs + [start + (block[-1] - v) for v in reversed(block)]
            x = xs[-1]
            for _ in range(rng.randint(8, 20)):
                x += STEP * (2 + min(int(rng.expovariate(1 / 4.5)), 30))
                xs.append(x)
            blocks[rid] = (b0, nb)
            refs.append({"id": rid, "len": (xs[-1] + STEP * rng.randint(1, 50)) * 10, "x": [v * 10 for v in xs], "bp": xs})
            break          # this contig alone: few seed peaks, the tie between the two loci decides
        refs.append({"id": rid, "len": (xs[-1] + STEP * rng.randint(1, 50)) * 10, "x": [v * 10 for v in xs], "bp": xs})
    qrys = []
    qid = 10
    longrefs = list(refs)
    # short contigs only a few kb longer than the molecule cut from them (the molecule starts at the contig's first label
    # and leaves one spare label at the end): the seeding correlation has a handful of lags, and on the wrong strand its
    # maximum lies on the border in about a quarter of the cases (find_peaks reports no peak there)
    for cid, q0 in ((12, 2), (13, 4)):
        n = rng.randint(14, 24)
        x = STEP * rng.randint(1, 3)
        xs = []
        for _ in range(n):
            xs.append(x)
            x += STEP * (2 + min(int(rng.expovariate(1 / 4.5)), 30))
        refs.append({"id": cid, "len": (xs[-1] + STEP * rng.randint(0, 2) + 1) * 10, "x": [v * 10 for v in xs], "bp": xs})
        labs = [v - xs[0] for v in xs[:n - 1]]
        total = labs[-1] + 1
        mir = sorted(labs[-1] - v for v in labs)
        qrys.append({"id": q0, "len": total * 10, "x": [v * 10 for v in labs], "kind": "shortcontig", "ref": cid,
                     "mirrored": False})
        qrys.append({"id": q0 + 1, "len": total * 10, "x": [v * 10 for v in mir], "kind": "shortcontigm", "ref": cid,
                     "mirrored": True})
    for k in range(6):
        ref = rng.choice(longrefs)
        xs = ref["bp"]
        w = rng.randint(14, 40)
        w0 = rng.randint(3, len(xs) - w - 3)
        style = k % 3
        if blocks and k < 4:                  # from inside the repeated block
            ref = refs[0]
            xs = ref["bp"]
            b0, nb = blocks[3]
            w = rng.randint(14, nb - 4)
            w0 = b0 + rng.randint(1, nb - w - 1)
            style = k % 2
        labs = []
        for i in range(w0, w0 + w):
            if style >= 1 and rng.random() < 0.12 and i not in (w0, w0 + w - 1):
                continue                                      # missing label
            labs.append(xs[i] - xs[w0])
            if style == 2 and rng.random() < 0.08:
                labs.append(xs[i] - xs[w0] + STEP)            # spurious label on the lattice
        if style == 2:                                        # lattice-quantised indel in the middle
            m = len(labs) // 2
            d = STEP * rng.randint(2, 12)
            labs = labs[:m] + [v + d for v in labs[m:]]
        labs = sorted(set(labs))
        off = STEP * rng.randint(0, 5)
        tail = rng.choice([0, 1, STEP * rng.randint(1, 4), STEP * rng.randint(1, 4) + 1])   # 0: the mirror image starts at 0
        fwd = [v + off for v in labs]
        total = fwd[-1] + tail
        mir = sorted(total - v for v in fwd)
        qrys.append({"id": qid, "len": total * 10, "x": [v * 10 for v in fwd], "kind": f"lattice{style}", "ref": ref["id"],
                     "mirrored": False})
        qrys.append({"id": qid + 1, "len": total * 10, "x": [v * 10 for v in mir], "kind": f"lattice{style}m",
                     "ref": ref["id"], "mirrored": True})
        qid += 2
    if dense and not decoy:
        # a contig with ONE label-dense stretch (gaps of 1-3 seeding bins inside it, at least 5 bins everywhere else) and the
        # molecule that is exactly that stretch, with its mirror image: the blurred seeding vector of the molecule is all ones -
        # the same read from either end although the molecule is no palindrome - so both strands give the same seed at the
        # same place and only the refinement tells them apart
        def sparse(x0, k):
            out, x = [], x0
            for _ in range(k):
                out.append(x)
                x += STEP * (5 + min(int(rng.expovariate(1 / 4.5)), 30))
            return out, x
        head, x = sparse(STEP * rng.randint(2, 6), rng.randint(25, 45))
        w = rng.randint(15, 22)
        stretch = []
        for _ in range(w):
            stretch.append(x)
            x += STEP * rng.choice([1, 2, 2, 3, 3])
        tailpart, _ = sparse(stretch[-1] + STEP * rng.randint(5, 12), rng.randint(25, 45))
        xs = head + stretch + tailpart
        if not decoy:
            refs.append({"id": 15, "len": (xs[-1] + STEP * rng.randint(1, 20)) * 10, "x": [v * 10 for v in xs], "bp": xs})
        labs = [v - stretch[0] for v in stretch]
        total = labs[-1]
        mir = sorted(total - v for v in labs)
        # (not next to the decoy contig: its dense loci give an all-ones vector more tied seeds than peaksCount, and which of
        # equally scored seeds are kept is no part of C11 - assumption 2)
        if mir != labs and not decoy:
            qrys.append({"id": 30, "len": total * 10 + 10, "x": [v * 10 for v in labs], "kind": "dense", "ref": 15, "mirrored": False})
            qrys.append({"id": 31, "len": total * 10 + 10, "x": [v * 10 for v in mir], "kind": "densem", "ref": 15, "mirrored": True})
    if decoy:
        # a contig with two loci that resemble one molecule: T carries all its labels exactly, but with two additional
        # labels in most gaps (weak normalised seed peak, many pairs); E carries the first labels exactly and the others
        # one lattice step to the left / right (strong seed peak, few pairs). Whether T's peak survives the "75% of the
        # maximum" criterion must not depend on the strand the molecule is given on
        n = rng.randint(18, 24)
        gaps = [rng.randint(12, 18) for _ in range(n - 1)]
        pat = [0]
        for g in gaps:
            pat.append(pat[-1] + g)
        t0, e0 = 600, 600 + pat[-1] + rng.randint(300, 900)
        if rng.random() < 0.5:
            t0, e0 = e0, t0
        top = max(t0, e0) + pat[-1] + rng.randint(300, 900)
        cells = {t0 + b for b in pat}
        for b, g in zip(pat, gaps):
            if rng.random() < 0.8:
                first = rng.randint(3, g - 6)
                cells.add(t0 + b + first)
                cells.add(t0 + b + rng.randint(first + 3, g - 3))
        exact = rng.randint(6, 9)
        for i, b in enumerate(pat):
            cells.add(e0 + b if i < exact else e0 + b + (1 if i % 2 else -1))
        b = 5
        while b < top:
            if not (t0 - 40 <= b <= t0 + pat[-1] + 40 or e0 - 40 <= b <= e0 + pat[-1] + 40):
                cells.add(b)
            b += rng.randint(15, 40)
        xs = [c * STEP for c in sorted(cells)]
        refs.append({"id": 5, "len": (xs[-1] + STEP * 3) * 10, "x": [v * 10 for v in xs], "bp": xs})
        off = rng.randint(0, 4)
        fwd = [(b + off) * STEP for b in pat]
        total = fwd[-1] + off * STEP
        mir = sorted(total - v for v in fwd)
        qrys.append({"id": 40, "len": total * 10 + 10, "x": [v * 10 for v in fwd], "kind": "decoy", "ref": 5, "mirrored": False})
        qrys.append({"id": 41, "len": total * 10 + 10, "x": [v * 10 for v in mir], "kind": "decoym", "ref": 5, "mirrored": True})
    return {"refs": refs, "qrys": qrys}


def one_input(args):
    seed, idx, workroot = args
    rng = random.Random(seed * 48611 + idx)
    inp = lattice_input(rng, inverted_repeat=(idx % 4 in (1, 3)), decoy=(idx % 4 in (0, 2)), dense=(idx % 4 == 3))
    wd = os.path.join(workroot, f"c11-{os.getpid()}-{idx}")
    extra = [{"-d": 600}, {"-d": 600, "-p": 5}, {"-d": 300, "-ms": 2000, "-bs": 1500}, {"-d": 600, "-sj": 0.5, "-ss": 1}][idx % 4]
    try:
        rp, qp = pipecases.write_input(wd, inp, "in", shuffle_rng=rng if idx % 2 else None)
        res = pipecases.run_once(wd, rp, qp, "sep", "separate", extra)
        recs = {}
        if res["status"] == "ok":
            for r in res["files"]["main"]["records"]:
                if not r.get("malformed"):
                    recs[r["q"]] = pipe_common.rec_for_tla(r)
        lines = []
        for q in inp["qrys"][::2]:
            a, b = recs.get(q["id"]), recs.get(q["id"] + 1)
            lines.append({"n": len(q["x"]), "a": [a] if a else [], "b": [b] if b else [],
                          "tag": {"input": idx, "query": q["id"], "kind": q["kind"], "extra": extra}})
    finally:
        shutil.rmtree(wd, ignore_errors=True)
    return {"status": res["status"], "log": res["log"][-300:], "lines": lines}


def run(ctx: Ctx):
    quick = ctx.tier == "quick"
    ctx.rule = ("CMAP sets on a 1400 bp lattice (2 references of 70-140 labels; 6 queries = exact / label-dropping / "
                "indel-and-spurious-label windows, each accompanied by its mirror image as a separate molecule), "
                "maxPairDistance 300 or 600 (< step/2), 4 parameter vectors, 'separate' mode; TLC compares the "
                "first-pass record of a query with that of its mirror image. non-trivial = distinct query whose record "
                "has a HitEnum gap (labels skipped) or which is aligned on the '-' strand")
    ctx.assumptions = ["default resolutions 1400 / 100; all coordinates multiples of 1400 bp; no equidistant ties",
                       "two references do not give exactly equal seed scores; no more than peaksCount seeds with exactly equal scores"]
    mc_res = {}
    import threading

    def mc():
        try:
            mc_res["r"] = tlc.run_tlc("MC_Mirror", "MC_Mirror.cfg" if quick else "MC_Mirror_thorough.cfg", ctx.workdir,
                                      workers=6 if quick else 12, heap_gb=16, timeout=5400)
            mc_res["d10"] = tlc.run_tlc("MC_Mirror", "MC_Mirror_d10.cfg", ctx.workdir, workers=4, allow_violation=True)
        except Exception as e:
            mc_res["err"] = e

    th = threading.Thread(target=mc)
    th.start()
    n = 20 if quick else 300
    with mp.get_context("fork").Pool(min(10, n)) as pool:
        results = pool.map(one_input, [(ctx.seed * 31 + 11, i, ctx.workdir) for i in range(n)])
    lines = []
    for r in results:
        if r["status"] != "ok":
            raise tlc.MachineryError(f"run aborted in C11 exploration (C07 decides aborts): {r['status']} {r['log']}")
        lines += r["lines"]
    verdicts, tr = batch.validate("Trace_Mirror", "Trace_Mirror.cfg", ctx.workdir,
                                  [{k: v for k, v in ln.items() if k != "tag"} for ln in lines])
    ctx.add_traces(len(lines))
    for ln in lines:
        if ln["a"] and (ln["a"][0]["ori"] == "-" or any(c in (68, 73) for c in ln["a"][0]["hit"])):
            ctx.nontrivial((ln["tag"]["input"], ln["tag"]["query"]))
    ctx.notes["pairs_of_records_compared"] = sum(1 for ln in lines if ln["a"] and ln["b"])
    for tid, (failed, drift) in sorted(verdicts.items()):
        if failed:
            ln = lines[tid]
            ctx.violation(ln, failed, "", what=f"{ln['tag']} a={[ (x['r'], x['ori'], x['conf'], len(x['pairs'])) for x in ln['a']]} "
                                               f"b={[ (x['r'], x['ori'], x['conf'], len(x['pairs'])) for x in ln['b']]}")
    for ln in [x for x in lines if x["a"] and x["b"]][:2]:
        ctx.sample({"tag": ln["tag"], "n": ln["n"],
                    "a": {k: ln["a"][0][k] for k in ("r", "ori", "conf", "pairs")},
                    "b": {k: ln["b"][0][k] for k in ("r", "ori", "conf", "pairs")}})
    th.join()
    if "err" in mc_res:
        raise mc_res["err"]
    ctx.add_model("MC_Mirror", mc_res["r"])
    ctx.exhaustive = True
    if not mc_res["d10"].invariant_violated:
        raise tlc.MachineryError("MC_Mirror_d10: the D10 deviation no longer breaks mirror symmetry in the model")
    ctx.notes["named_deviation_D10"] = "ReverseNegatesQueryDistance=TRUE violates Inv_C11 in the model"
