"""C08 - output modes agree; joined records are justified by and faithful to their parts.

(A) TLC: MC_Pipeline - the mode dispatch on abstract rows satisfies the C08 file relations for every outcome of
    the join.
(B/C) the four multi-pass modes on the same generated input (split / swapped / duplicated / indel / chimeric /
    partial molecules, maxDifference in {0, 10 kb, 100 kb, 1 Mb}); TLC (Trace_Pipeline) evaluates the C08 clauses on
    the records of all files together and replays the dispatch from all._1 / all._2 (drift).
"""
from __future__ import annotations

from lib.core import Ctx
from props import file_common


def classify(ln, failed):
    """structural signature of a failing join for known_findings.json: which pairs of the valid union are missing"""
    if failed != ["C08:joined_is_exactly_the_union_when_union_is_valid"]:
        return ""
    return ""


def run(ctx: Ctx):
    quick = ctx.tier == "quick"
    ctx.rule = ("generated CMAP sets whose queries are built to be aligned in two passes (two windows of one reference: "
                "in order with a deletion, swapped, duplicated; indels; chimeras of two references; half-junk "
                "molecules) run in best / separate / joined / all with maxDifference 0, 10 kb, 100 kb (default), "
                "1 Mb; TLC judges the 9 files of an input together. non-trivial = distinct (input, query) that has a "
                "joined record, or a first- and a second-pass record that were not joined")
    ctx.assumptions = ["records are compared as text fields parsed independently of src/parsers",
                       "nothing beyond C05 is demanded of 'best' (the property text does not)"]
    res, lines, out = file_common.explore(ctx, 24 if quick else 400, salt=8,
                                          kinds=["split", "swapped", "dup", "indel", "chimeric", "partial", "split",
                                                 "dropped", "indel", "split", "stretched", "mirror"])
    joins = 0
    for rr, ln in zip(res, lines):
        if ln is None:
            continue
        a = ln["runs"]["all"]
        jq = {r["q"] for r in a["main"]}
        joins += len(jq)
        for q in {r["q"] for r in a["f1"]} & {r["q"] for r in a["f2"]}:
            ctx.nontrivial((rr["summary"]["idx"], q, q in jq))
    ctx.notes["joined_records"] = joins
    for rr, ln, failed, drift in out:
        mine = [c for c in failed if c.startswith("C08:")]
        if mine:
            ctx.violation({"input": rr["summary"]["idx"], "extra": rr["summary"]["extra"], "line": ln}, mine,
                          classify(ln, mine), what=f"input={rr['summary']['idx']} extra={rr['summary']['extra']}")
        elif drift and not failed:
            ctx.add_drift(1, {"input": rr["summary"]["idx"], "drift": drift})
    ok = [ln for ln in lines if ln is not None and ln["runs"]["all"]["main"]]
    if ok:
        j = ok[0]["runs"]["all"]["main"][0]
        ctx.sample({"joined": {k: j[k] for k in ("q", "r", "ori", "conf", "pairs")},
                    "first": [{k: r[k] for k in ("q", "r", "ori", "rs", "re", "pairs")} for r in ok[0]["runs"]["all"]["f1"]
                              if r["q"] == j["q"]],
                    "second": [{k: r[k] for k in ("q", "r", "ori", "rs", "re", "pairs")} for r in ok[0]["runs"]["all"]["f2"]
                               if r["q"] == j["q"]]})
