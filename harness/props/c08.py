"""C08 - output modes agree; joined records are justified by and faithful to their parts.

(A) TLC: MC_Pipeline - the mode dispatch on abstract rows satisfies the C08 file relations for every outcome of
    the join.
(B/C) the four multi-pass modes on the same generated input (split / swapped / duplicated / indel / chimeric /
    partial molecules, maxDifference in {0, 10 kb, 100 kb, 1 Mb}); TLC (Trace_Pipeline) evaluates the C08 clauses on
    the records of all files together and replays the dispatch from all._1 / all._2 (drift).
"""
from __future__ import annotations

import random

from lib import alignlib, batch, gen, tlc
from lib.core import Ctx
from props import file_common


def build_row(segs, rev):
    """a real AlignmentResultRow from recorded segments (lattice rows printed by TLC)"""
    from src.alignment.alignment_position import AlignedPair, ScoredAlignedPair, ScoredNotAlignedPosition, \
        NotAlignedReferencePosition, NotAlignedQueryPosition
    from src.alignment.alignment_results import AlignmentResultRow
    from src.alignment.segment_with_resolved_conflicts import AlignmentSegmentsWithResolvedConflicts
    from src.alignment.segments import AlignmentSegment
    from src.correlation.optical_map import PositionWithSiteId
    from src.correlation.peak import Peak
    out = []
    for sg in segs:
        pos = []
        for p in sg["pos"]:
            if p["k"] == "P":
                pos.append(ScoredAlignedPair(AlignedPair(PositionWithSiteId(p["r"][0], p["r"][1]),
                                                         PositionWithSiteId(p["q"][0], p["q"][1]), p["sh"]), float(p["sc"])))
            elif p["k"] == "R":
                pos.append(ScoredNotAlignedPosition(NotAlignedReferencePosition(PositionWithSiteId(p["r"][0], p["r"][1])),
                                                    float(p["sc"])))
            else:
                pos.append(ScoredNotAlignedPosition(NotAlignedQueryPosition(PositionWithSiteId(p["q"][0], p["q"][1]),
                                                                            sg["peak"]), float(p["sc"])))
        out.append(AlignmentSegment.create(pos, Peak(sg["peak"], 1.), pos))
    return AlignmentResultRow.create(AlignmentSegmentsWithResolvedConflicts(out), 7, 1, 1000, 100000, rev)


def observe_join(rowA, rowB, max_diff=10 ** 9):
    obs = {"status": "ok", "joined": False, "pairs": []}
    try:
        if rowA.check_overlap(rowB, max_diff):
            j = rowA.resolve(rowB)
            if j:
                obs["joined"] = True
                obs["pairs"] = [[p.reference.siteId, p.query.siteId] for p in j.alignedPairs]
    except Exception as e:
        obs["status"] = "exc:" + type(e).__name__
    return obs


def row_record(row):
    return {"segs": [{"peak": int(s.peak.position), "pos": [gen.pos_record(x, 1) for x in s.positions]}
                     for s in row.segments if s.positions]}


def realistic_join_cases(rng: random.Random, n: int):
    """two windows of one reference (in order / overlapping / duplicated / swapped) aligned by the real Aligner:
    the whole molecule seeded on the first window's diagonal, the second-pass style fragment on the second's"""
    from src.correlation.peak import Peak
    from src.correlation.optical_map import OpticalMap
    out = []
    tries = 0
    while len(out) < n and tries < 8 * n:
        tries += 1
        ref = gen.make_reference(rng, rng.randint(40, 80), min_gap=1500, mean_gap=rng.choice([6000, 9000]))
        nl = len(ref)
        wa, wb = rng.randint(8, 16), rng.randint(8, 16)
        a0 = rng.randint(2, nl - wa - wb - 8)
        style = rng.choice(["split", "split", "overlap", "overlap", "dup", "swapped"])
        b0 = {"split": a0 + wa + rng.randint(0, 3), "overlap": a0 + wa - rng.randint(1, 4), "dup": a0,
              "swapped": a0 + wa + rng.randint(0, 3)}[style]
        A, _ = gen.cut_query(rng, ref, a0, a0 + wa, sigma=rng.choice([0, 60, 150]), drop=rng.choice([0, 0.1]),
                             extra=rng.choice([0, 0.1]))
        B, _ = gen.cut_query(rng, ref, b0, b0 + wb, sigma=rng.choice([0, 60, 150]), drop=rng.choice([0, 0.1]),
                             extra=rng.choice([0, 0.1]))
        if style == "swapped":
            A, B, a0, b0 = B, A, b0, a0
        gap = rng.randint(1500, 9000)
        qx = A + [A[-1] + gap + v for v in B]
        nA = len(A)
        rev = rng.random() < 0.5
        qlen = qx[-1] + 1
        if rev:
            stored = sorted((qlen - 1) - v for v in qx)
        else:
            stored = qx
        whole = OpticalMap(7, qlen, list(stored))
        p = gen.Params(d=rng.choice([1500, 1500, 800]))
        aligner, _, _ = gen.real_aligner(p)
        r, _ = gen.optical_maps(ref, stored, qlen=qlen)
        peak_a = ref[a0] - qx[0] + rng.randint(-80, 80)
        peak_b = ref[b0] - qx[nA] + rng.randint(-80, 80)
        row1 = aligner.align(r, whole, [Peak(peak_a, 1.)], rev)
        # the second-pass fragment: the part of the molecule that carries B (with 2 labels of overlap), numbered as
        # getUnalignedFragments numbers it
        if rev:
            n = len(stored)
            frag = OpticalMap(7, qlen, list(stored[: n - nA + 2]), shift=0)
        else:
            frag = OpticalMap(7, qlen, list(stored[nA - 2:]), shift=nA - 2)
        row2 = aligner.align(r, frag, [Peak(peak_b, 1.)], rev)
        if not row1.alignedPairs or not row2.alignedPairs:
            continue
        out.append({"A": row_record(row1), "B": row_record(row2), "rev": rev, "obs": observe_join(row1, row2),
                    "style": style})
    return out


def join_signature(rec, failed):
    """known-finding signature: every pair of the (valid) union that the joined record lacks lies inside the zone the
    join slices: from the first pair of the part that starts later to the last pair of the part that starts earlier"""
    if failed != ["joined_is_exactly_the_union_when_union_is_valid"]:
        return ""
    pa = [(p["r"][0], p["q"][0], p["r"][1]) for s_ in rec["A"]["segs"] for p in s_["pos"] if p["k"] == "P"]
    pb = [(p["r"][0], p["q"][0], p["r"][1]) for s_ in rec["B"]["segs"] for p in s_["pos"] if p["k"] == "P"]
    joined = {tuple(x) for x in rec["obs"]["pairs"]}
    missing = [x for x in pa + pb if (x[0], x[1]) not in joined]
    first, second = (pa, pb) if pa[0][2] < pb[0][2] else (pb, pa)
    lo, hi = second[0][2], first[-1][2]
    if missing and all(lo <= x[2] <= hi for x in missing):
        return "merge_cut_drops_pairs_inside_conflict_zone"
    return ""


def classify(ln, failed):
    """file-level signature of known finding D7: every joined record that is not the (valid) union of its parts lacks
    only pairs whose reference labels lie between the first pair of the part that starts later and the last pair of
    the part that starts earlier (label numbers ascend with the coordinate)"""
    if failed != ["C08:joined_is_exactly_the_union_when_union_is_valid"]:
        return ""
    a = ln["runs"]["all"]
    ok = False
    for j in a["main"]:
        F = [r for r in a["f1"] if r["q"] == j["q"] and r["r"] == j["r"] and r["ori"] == j["ori"]]
        S = [r for r in a["f2"] if r["q"] == j["q"] and r["r"] == j["r"] and r["ori"] == j["ori"]]
        if not F or not S:
            continue
        pf, ps_ = [tuple(p) for p in F[0]["pairs"]], [tuple(p) for p in S[0]["pairs"]]
        union = set(pf) | set(ps_)
        joined = {tuple(p) for p in j["pairs"]}
        if joined == union:
            continue
        missing = union - joined
        first, second = (pf, ps_) if pf[0][0] < ps_[0][0] else (ps_, pf)
        lo, hi = second[0][0], first[-1][0]
        if not missing or not all(lo <= m[0] <= hi for m in missing) or (joined - union):
            return ""
        ok = True
    return "merge_cut_drops_pairs_inside_conflict_zone" if ok else ""


def run(ctx: Ctx):
    quick = ctx.tier == "quick"
    ctx.rule = ("generated CMAP sets whose queries are built to be aligned in two passes (two windows of one reference: "
                "in order with a deletion, swapped, duplicated; indels; chimeras of two references; half-junk "
                "molecules) run in best / separate / joined / all with maxDifference 0, 10 kb, 100 kb (default), "
                "1 Mb; TLC judges the 9 files of an input together. non-trivial = distinct (input, query) that has a "
                "joined record, or a first- and a second-pass record that were not joined")
    ctx.assumptions = ["records are compared as text fields parsed independently of src/parsers",
                       "nothing beyond C05 is demanded of 'best' (the property text does not)"]
    res, lines, out = file_common.explore(ctx, 24 if quick else 400, salt=8,
                                          n_qry=20,
                                          kinds=["split", "swapped", "dup", "indel", "chimeric", "partial", "split",
                                                 "dropped", "indel", "split", "stretched", "mirror", "endstub", "endstub",
                                                 "splitindel", "splitindel", "splitindelrev", "splitindelrev",
                                                 "flankdup", "flankdup"])      # two second-pass records of one query, equally confident
    joins = 0
    for rr, ln in zip(res, lines):
        if ln is None:
            continue
        a = ln["runs"]["all"]
        jq = {r["q"] for r in a["main"]}
        joins += len(jq)
        for q in {r["q"] for r in a["f1"]} & {r["q"] for r in a["f2"]}:
            ctx.nontrivial((rr["summary"]["idx"], q, q in jq))
    ctx.notes["joined_records"] = joins
    for rr, ln, failed, drift in out:
        mine = [c for c in failed if c.startswith("C08:")]
        if mine:
            ctx.violation({"input": rr["summary"]["idx"], "extra": rr["summary"]["extra"], "line": ln}, mine,
                          classify(ln, mine), what=f"input={rr['summary']['idx']} extra={rr['summary']['extra']}")
        elif drift and not failed:
            ctx.add_drift(1, {"input": rr["summary"]["idx"], "drift": drift})
    # ---- the join itself at component level: real AlignmentResultRow.resolve on (i) the lattice rows MC_Join
    #      enumerates (printed by TLC) and (ii) rows built by the real Aligner; judged by TLC (Trace_Join)
    mcj = tlc.run_tlc("MC_Join", "MC_Join.cfg", ctx.workdir, workers=4)
    ctx.add_model("MC_Join", mcj)
    un = tlc.run_tlc("MC_Join", "MC_Join_union.cfg", ctx.workdir, workers=2, allow_violation=True)
    ctx.notes["MC_Join_union"] = ("TLC finds a join whose parts have a valid union that the joined record does not equal "
                                  "(known finding D7): " + ("yes" if un.invariant_violated else "NO LONGER"))
    space = batch.export_by_print("MC_Join", "Export_Join.cfg", ctx.workdir, workers=4)
    rng = random.Random(ctx.seed * 977 + 8)
    jrecs = []
    for c in (space if not quick else space[::2]):
        ra, rb = build_row(c["A"]["segs"], False), build_row(c["B"]["segs"], False)
        jrecs.append({"A": c["A"], "B": c["B"], "rev": False, "obs": observe_join(ra, rb), "style": "lattice"})
    jrecs += realistic_join_cases(rng, 1500 if quick else 40000)
    v3, r3 = batch.validate("Trace_Join", "Trace_Join.cfg", ctx.workdir,
                            [{k: v for k, v in x.items() if k != "style"} for x in jrecs], name="join.ndjson")
    ctx.add_traces(len(jrecs))
    ctx.notes["join_component"] = {"cases": len(jrecs), "joined": sum(1 for x in jrecs if x["obs"]["joined"]),
                                   "from_tlc_exported_space": len(space)}
    for x in jrecs:
        if x["obs"]["joined"]:
            ctx.nontrivial(("join", repr(x["A"]) + repr(x["B"])))
    for tid, (failed, drift) in sorted(v3.items()):
        x = jrecs[tid]
        if failed:
            ctx.violation(x, ["C08:" + c for c in failed], join_signature(x, failed),
                          what=f"style={x['style']} rev={x['rev']} joined={x['obs']['pairs'][:8]} "
                               f"A={[ (p['r'][0], p['q'][0]) for s_ in x['A']['segs'] for p in s_['pos'] if p['k'] == 'P'][:8]} "
                               f"B={[ (p['r'][0], p['q'][0]) for s_ in x['B']['segs'] for p in s_['pos'] if p['k'] == 'P'][:8]}")
        elif drift:
            ctx.add_drift(1, {"style": x["style"], "obs": x["obs"], "drift": drift})
    ok = [ln for ln in lines if ln is not None and ln["runs"]["all"]["main"]]
    if ok:
        j = ok[0]["runs"]["all"]["main"][0]
        ctx.sample({"joined": {k: j[k] for k in ("q", "r", "ori", "conf", "pairs")},
                    "first": [{k: r[k] for k in ("q", "r", "ori", "rs", "re", "pairs")} for r in ok[0]["runs"]["all"]["f1"]
                              if r["q"] == j["q"]],
                    "second": [{k: r[k] for k in ("q", "r", "ori", "rs", "re", "pairs")} for r in ok[0]["runs"]["all"]["f2"]
                               if r["q"] == j["q"]]})
