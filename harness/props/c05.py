"""C05 - at most one record per query: the best-scoring candidate, in query-id order.

(A) TLC: MC_Pipeline - filter / resolve / mode dispatch on abstract rows satisfy the C05 file clauses.
(B/C) the four modes on generated inputs with peaksCount in {1,2,3,5}; TLC (Trace_Pipeline) checks every file
    (one record per query, ascending ids, best mode covers exactly the aligned queries) and that the first-pass
    record of a query is a maximal candidate among those the recorder extension saw inside the worker; the seeds
    of those candidates are the top-peaksCount primary peaks by score (Trace_Vectorise, kind sel).
"""
from __future__ import annotations

from lib import batch
from lib.core import Ctx
from props import file_common, pipe_common, worker


def run(ctx: Ctx):
    quick = ctx.tier == "quick"
    ctx.rule = ("generated CMAP sets (1-3 references, some with tandem repeats so that several loci compete; 15 queries "
                "of all kinds) run in the four output modes with 8 parameter vectors (peaksCount 1,2,3,5); per input "
                "TLC judges all files together; candidates and seed peaks are recorded inside the worker by a harness "
                "Extension. non-trivial = distinct (input, query) whose first-pass task had >= 2 candidates with pairs")
    ctx.assumptions = ["ties between equally confident candidates: any maximal candidate is accepted",
                       "written Confidence has 2 decimals: it must be within half a unit of the exact maximum"]
    # swapped / dup: two parts on one reference and strand whose join is refused; flankdup: two second-pass fragments of
    # one query with exactly equal confidence; inversion: the two passes on opposite strands
    # outscored: the second pass finds a better alignment than the first (every other label missing in the larger part)
    res, lines, out = file_common.explore(ctx, 24 if quick else 240, salt=5, n_qry=16,
                                          kinds=["split", "noisy", "swapped", "dropped", "indel", "chimeric", "mirror", "partial",
                                                 "junk", "flankdup", "exact", "dup", "tiny", "stretched", "inversion",
                                                 "outscored"])
    # short contigs, one molecule each from either end (a seeding correlation without any peak on one strand)
    res2, lines2, out2 = file_common.explore(ctx, 6 if quick else 40, salt=55, n_qry=8, kinds=["shortcontigs"], model=False)
    res, lines, out = res + res2, lines + lines2, out + out2
    # the worker's own protocol: each task's messages replayed against Worker.tla (the returned row is a most confident
    # candidate of at most peaksCount)
    worker.run_part(ctx, "C05")
    seeds = []
    for rr, ln in zip(res, lines):
        if ln is None:
            continue
        for c in ln["cands"]:
            if len([x for x in c["cands"] if x["pairs"]]) >= 2:
                ctx.nontrivial((rr["summary"]["idx"], c["q"]))
        seeds.extend(file_common.seed_cases(rr["summary"], ln["peaksCount"]))
    for rr, ln, failed, drift in out:
        mine = [c for c in failed if c.startswith("C05:")]
        if mine:
            ctx.violation({"input": rr["summary"]["idx"], "extra": rr["summary"]["extra"], "line": ln}, mine, "",
                          what=f"input={rr['summary']['idx']} extra={rr['summary']['extra']}")
        elif drift and not failed:
            ctx.add_drift(1, {"input": rr["summary"]["idx"], "drift": drift})
    for rr in res:
        for m, ms in rr["summary"]["modes"].items():
            if ms["status"] != "ok":
                ctx.notes.setdefault("runs_that_aborted_(C07)", []).append({"input": rr["summary"]["idx"], "mode": m,
                                                                            "status": ms["status"]})
    if seeds:
        v2, r2 = batch.validate("Trace_Vectorise", "Trace_Vectorise.cfg", ctx.workdir,
                                [{k: v for k, v in s.items() if k != "tag"} for s in seeds], name="seeds.ndjson")
        ctx.add_traces(len(seeds))
        ctx.notes["seed_selection_cases"] = len(seeds)
        for tid, (failed, drift) in sorted(v2.items()):
            if failed:
                ctx.violation(seeds[tid], ["C05:seeds_" + c for c in failed], "",
                              what=f"task={seeds[tid]['tag']} scores={seeds[tid]['vin']['scores'][:8]} "
                                   f"count={seeds[tid]['vin']['count']} chosen={seeds[tid]['obs']}")
    # ---- the second pass is bound to Fragments.tla: predicted fragments vs the tasks the workers really received
    fl = [x for rr, ln in zip(res, lines) if ln is not None for x in file_common.second_pass_lines(rr["summary"])]
    if fl:
        v3, r3 = batch.validate("Trace_Fragments", "Trace_Fragments.cfg", ctx.workdir,
                                [{k: v for k, v in x.items() if k != "tag"} for x in fl], name="secondpass.ndjson")
        ctx.add_traces(len(fl))
        ctx.notes["second_pass_task_sets_compared"] = len(fl)
        for tid, (failed, drift) in sorted(v3.items()):
            if drift or failed:
                ctx.add_drift(1, {"tag": fl[tid]["tag"], "row": fl[tid]["row"], "what": failed + drift,
                                  "observed_tasks": [(o["shift"], len(o["x"])) for o in fl[tid]["obs"]]})
    ok = [ln for ln in lines if ln is not None]
    if ok:
        ctx.sample({"peaksCount": ok[0]["peaksCount"], "cands_of_first_query": ok[0]["cands"][:1],
                    "all_1": [{k: r[k] for k in ("q", "r", "ori", "conf")} for r in ok[0]["runs"]["all"]["f1"]],
                    "best_main": [{k: r[k] for k in ("q", "r", "ori", "conf")} for r in ok[0]["runs"]["best"]["main"]]})
    if seeds:
        ctx.sample(seeds[0])
