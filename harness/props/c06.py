"""C06 - a noise-free copy of an interior reference region is placed exactly.

(A) TLC: MC_Planted - the discrete lemma: exact copy + seed within maxD of the true diagonal + spacing > 2*maxD
    => the composed Aligner.align model returns exactly the true matching (both strands, 1-2 seeds).
    Since round 9 the seeding and refinement stages are modelled too (Seeding.tla: exact Dice / count correlation, the peak
    selection rules; MC_Seeding, MC_Refine) and the real getInitialAlignment / refine are replayed against it (props/seeding.py).
(B/C) decides the property: planted queries in the quantifier's domain through the real pipeline with default
    parameters in every output mode; TLC (Trace_Planted) checks reference, strand, exact pairs, |offset| <= 200 bp
    and HitEnum = nM.
"""
from __future__ import annotations

import multiprocessing as mp
import os
import random
import shutil

from lib import batch, gen, pipecases, tlc
from lib.core import Ctx
from props import pipe_common, seeding

LEVEL = "model_checking"
MODES = ["best", "separate", "joined", "all", "single"]


def planted_input(rng: random.Random):
    n = rng.randint(60, 260)
    # spacing >= 2 kb, mean >= 9 kb
    near_start = rng.random() < 0.35          # first labels close to the reference start (refinement window < 0)
    x = rng.randint(0, 2500) if near_start else rng.randint(3000, 40000)
    xs = []
    for k in range(n):
        xs.append(x)
        if near_start and k < 9:
            x += rng.randint(2000, 2600)
        else:
            x += 2000 + int(rng.expovariate(1 / rng.choice([7500., 9000., 14000.])))
    dense = None
    if not near_start and rng.random() < 0.3:
        # a label-dense stretch (a share of its gaps is 2-3.5 kb) inside a contig whose other gaps are long enough to
        # keep the overall mean >= 9 kb: many seed candidates of similar height on the true strand
        n = rng.randint(200, 300)
        d0 = rng.randint(40, 110)
        d1 = d0 + rng.randint(50, 90)
        share = rng.choice([0.3, 0.45, 0.6])
        x = rng.randint(5000, 20000)
        xs = []
        for k in range(n):
            xs.append(x)
            if d0 <= k < d1:
                x += rng.randint(2000, 3500) if rng.random() < share else 2000 + int(rng.expovariate(1 / 9000.))
            else:
                x += rng.randint(9000, 30000)
        dense = (d0, d1)
    dup = None
    if dense is None and not near_start and rng.random() < 0.35:
        # a segmental duplication: region A (its first label in the middle of a 1400 bp seeding bin) and, far downstream,
        # a slightly diverged copy B that starts on a bin boundary, every label displaced by 150-400 bp (towards the
        # centre of the bin the molecule's label falls into, or in a random direction): B's coarse seed can outrank
        # A's although only A carries the molecule's exact pattern
        res1 = 1400
        wa = rng.randint(20, 42)
        d = rng.choice([150, 250, 400])
        pattern = [0]
        for _ in range(wa - 1):
            pattern.append(pattern[-1] + 3000 + int(rng.expovariate(1 / 7000.)))
        head = [rng.randint(5000, 30000)]
        for _ in range(rng.randint(8, 30)):
            head.append(head[-1] + 2500 + int(rng.expovariate(1 / 9000.)))
        start_a = head[-1] + rng.randint(4000, 20000)
        start_a += (res1 // 2 - start_a % res1) % res1
        a0 = len(head)
        xs = head + [start_a + v for v in pattern]
        for _ in range(rng.randint(20, 60)):
            xs.append(xs[-1] + 2500 + int(rng.expovariate(1 / 9000.)))
        start_b = xs[-1] + rng.randint(4000, 20000)
        start_b += -start_b % res1
        central = rng.random() < 0.6
        b0 = len(xs)
        xs += [start_b + v + ((d if v % res1 < res1 // 2 else -d) if central else rng.choice([-d, d])) for v in pattern]
        for _ in range(rng.randint(8, 30)):
            xs.append(xs[-1] + 2500 + int(rng.expovariate(1 / 9000.)))
        n = len(xs)
        dup = (a0, wa, b0)
    pal = None
    if dense is None and dup is None and not near_start and rng.random() < 0.3:
        # a nearly palindromic region (gaps g1..gm followed by gm..g1, each changed by a few hundred bp): a molecule cut
        # symmetrically around its centre correlates on BOTH strands at the same seed position, the true strand a little
        # better - two selected seeds that differ in nothing but the strand
        m = rng.randint(8, 20)
        gaps = [3000 + int(rng.expovariate(1 / 8000.)) for _ in range(m)]
        back = [g + rng.choice([-1, 1]) * rng.randint(150, 700) for g in reversed(gaps)]
        head = [rng.randint(5000, 30000)]
        for _ in range(rng.randint(8, 40)):
            head.append(head[-1] + 2500 + int(rng.expovariate(1 / 9000.)))
        a0 = len(head)
        xs = head + [head[-1] + rng.randint(4000, 20000)]
        for g in gaps + back:
            xs.append(xs[-1] + g)
        for _ in range(rng.randint(8, 60)):
            xs.append(xs[-1] + 2500 + int(rng.expovariate(1 / 9000.)))
        n = len(xs)
        pal = (a0, 2 * m + 1)
    while (xs[-1] - xs[0]) / (n - 1) < 9000:      # stretch the tail only, keeping every gap >= 2 kb
        xs = xs[:10] + [xs[9] + int((v - xs[9]) * 1.15) for v in xs[10:]]
    dx = pipecases.deci(xs, rng if rng.random() < 0.5 else None)
    ref = {"id": rng.choice([1, 4, 17]), "len": dx[-1] + rng.randint(10, 300000), "x": dx, "bp": xs}
    qrys = []
    qid = rng.randint(1, 30)
    for nq in range(8):
        w = rng.randint(15, 45)
        if nq == 7 and n >= 190 and dense is None and dup is None and pal is None:
            w = rng.randint(150, n - 12)       # "at least 15" has no upper end: a molecule of 150+ labels (more than 255
            #                                    seeding bins set: counts that no longer fit into a byte)
        if n - w - 8 < 4:
            w = 15
        w0 = rng.choice([4, 4, 5, n - w - 4, rng.randint(4, n - w - 4), rng.randint(4, n - w - 4)])
        if dense:
            w0 = max(4, min(n - w - 4, rng.randint(dense[0] - 8, dense[1] - 10)))
        if pal and len(qrys) < 5:       # windows symmetric about the centre of the palindromic region
            k = rng.choice([0, 0, 1, 2, 3])
            if pal[1] - 2 * k >= 15:
                w0, w = pal[0] + k, pal[1] - 2 * k
        if dup and len(qrys) < 6:       # the duplicated region (from its first label / a few labels in), or its copy
            k = rng.choice([0, 0, 0, 1, 2, 3])
            w0 = (dup[0] if len(qrys) % 3 != 2 else dup[2]) + k
            w = rng.randint(max(15, dup[1] - k - 6), dup[1] - k)
        off = rng.choice([0, 7, 1234, 56789])
        tail = rng.choice([1, 15, 4000, 120000])
        rev = rng.random() < 0.5
        cut = [dx[i] - dx[w0] for i in range(w0, w0 + w)]        # exact copy (deci-bp, decimals preserved)
        if rev:
            total = cut[-1]
            stored = sorted(total - v for v in cut)
            truth = [[w0 + j + 1, w - j] for j in range(w)]
        else:
            stored = cut
            truth = [[w0 + j + 1, j + 1] for j in range(w)]
        stored = [v + off * 10 for v in stored]
        qrys.append({"id": qid, "len": stored[-1] + tail * 10, "x": stored, "kind": "planted", "ref": ref["id"],
                     "mirrored": rev, "truth": truth, "rev": rev,
                     "dense": list(dense) if dense else []})
        qid += rng.randint(1, 5)
    if rng.random() < 0.5:
        # company in the query file: a molecule of two adjacent reference regions with 20-60 kb inserted between them
        # (its two passes are joined), and a planted query that carries the reference's own id
        w1 = min(rng.randint(12, 20), (n - 12) // 2)
        a0 = rng.randint(4, n - 2 * w1 - 6)
        ins = rng.randint(20000, 60000) * 10
        part = [dx[i] - dx[a0] for i in range(a0, a0 + 2 * w1)]
        two = part[:w1] + [v + ins for v in part[w1:]]
        qrys.append({"id": qid + 3, "len": two[-1] + 500, "x": two, "kind": "company", "ref": ref["id"],
                     "mirrored": False, "truth": [], "rev": False, "dense": []})
        if all(q["id"] != ref["id"] for q in qrys):
            qrys[rng.randrange(0, 8)]["id"] = ref["id"]
            qrys.sort(key=lambda q: q["id"])
    return {"refs": [ref], "qrys": qrys}


def one_input(args):
    seed, idx, workroot = args
    rng = random.Random(seed * 15485863 + idx)
    inp = planted_input(rng)
    wd = os.path.join(workroot, f"c06-{os.getpid()}-{idx}")
    mode = MODES[idx % len(MODES)]
    lines = []
    try:
        rp, qp = pipecases.write_input(wd, inp, "in")
        res = pipecases.run_once(wd, rp, qp, "o", mode)
        status = res["status"]
        if status == "ok":
            # the file that holds first-pass / un-joined records in this mode
            src = {"best": "main", "separate": "main", "single": "main", "joined": "_1", "all": "_1"}[mode]
            recs = {r["q"]: r for r in res["files"][src]["records"] if not r.get("malformed")}
            shifts = {}
            if res["rows"] is not None and src == "main":
                for row in res["rows"].rows:
                    shifts[int(row.queryId)] = [int(round(float(p.queryShift))) for p in row.alignedPairs]
            for q in inp["qrys"]:
                if q["kind"] != "planted":
                    continue
                r = recs.get(q["id"])
                lines.append({"ref": inp["refs"][0]["id"], "rev": q["rev"], "truth": q["truth"],
                              "rec": [pipe_common.rec_for_tla(r)] if r else [],
                              "shifts": shifts.get(q["id"], []),
                              "tag": {"input": idx, "mode": mode, "query": q["id"], "labels": len(q["x"]),
                                      "ref_labels": len(inp["refs"][0]["x"]), "dense_stretch": q["dense"],
                                      "window_start": q["truth"][0][0]}})
    finally:
        shutil.rmtree(wd, ignore_errors=True)
    return {"status": status, "log": res["log"][-300:], "lines": lines}


def run(ctx: Ctx):
    quick = ctx.tier == "quick"
    ctx.rule = ("single-reference maps of 60-260 labels with spacing >= 2 kb and mean >= 9 kb (with and without one-decimal "
                "coordinates); 8 planted queries each = exact copies of interior windows of 15-45 labels at least 4 labels "
                "from either end, on either strand, with coordinate offsets 0..56789 bp and trailing lengths 1 bp..120 kb; "
                "default parameters; the five output modes in turn. non-trivial = distinct planted query (every one is: "
                "its placement depends on the numerical correlation)")
    ctx.assumptions = ["the FFT itself is not modelled: Seeding.tla computes the correlations exactly (rationals / integer counts) "
                       "and every replayed real call is compared with the exact values to 2e-5; end to end the check is an "
                       "exploration (sampled inputs), the lemmas (MC_Planted, MC_Seeding, MC_Refine) are exhaustive within bounds"]
    mc = tlc.run_tlc("MC_Planted", "MC_Planted.cfg", ctx.workdir, workers=6, heap_gb=8)
    ctx.add_model("MC_Planted", mc)
    ctx.notes["what_is_exhaustive"] = "the lemmas: MC_Planted (placement), MC_Seeding / MC_Refine (an exact locus is seeded / refined); the end-to-end runs are sampled"
    # the seeding half, now a model of its own: MC_Seeding (a planted lattice copy has sample 1 = the global maximum at
    # its true offset, and an exact locus that is a strict maximum is always seeded) + the real stage replayed by TLC
    seeding.run_part(ctx, "C06", model=True)
    n = int(os.environ.get("C06_N", "0")) or (30 if quick else 1500)
    with mp.get_context("fork").Pool(min(14, n)) as pool:
        results = pool.map(one_input, [(ctx.seed * 37 + 6, i, ctx.workdir) for i in range(n)])
    lines = []
    for r in results:
        if r["status"] != "ok":
            ctx.violation({"log": r["log"]}, ["run_aborted_" + r["status"]], "", what=r["log"][-200:])
        lines += r["lines"]
    verdicts, tr = batch.validate("Trace_Planted", "Trace_Planted.cfg", ctx.workdir,
                                  [{k: v for k, v in ln.items() if k != "tag"} for ln in lines])
    ctx.add_traces(len(lines))
    for ln in lines:
        ctx.nontrivial((ln["tag"]["input"], ln["tag"]["query"]))
    ctx.notes["planted_queries"] = len(lines)
    ctx.notes["with_observed_offsets"] = sum(1 for ln in lines if ln["shifts"])
    for tid, (failed, drift) in sorted(verdicts.items()):
        if failed:
            ln = lines[tid]
            ctx.violation(ln, failed, "", what=f"{ln['tag']} rev={ln['rev']} rec={[(x['r'], x['ori'], len(x['pairs']), ''.join(map(chr, x['hit']))[:20]) for x in ln['rec']]}")
    for ln in lines[:2]:
        ctx.sample({"tag": ln["tag"], "rev": ln["rev"], "truth_first_last": [ln["truth"][0], ln["truth"][-1]],
                    "shifts": ln["shifts"][:6], "rec_hit": "".join(map(chr, ln["rec"][0]["hit"])) if ln["rec"] else None})
