"""C14 - the chain is a best-scoring admissible order-respecting selection of segments.

(A) TLC: MC_Chainer (the DP as modelled satisfies C14 on every small lattice segment set; D10 deviation shown).
(B) segment sets printed by TLC + random sets of <= 8 lattice segments (shuffled, with empty segments)
    through the REAL SegmentChainer / SequentialityScorer.
(C) Trace_Chainer: TLC evaluates the C14 clauses against the OBSERVED join matrix (exact rationals) and
    enumerates every key-ordered subset; Impl replay (DP + getScore formula) for drift.
"""
from __future__ import annotations

import math
import random
import threading

from lib import batch, tlc
from lib.core import Ctx
from lib import repo  # noqa: F401

SCALE = 55440


def build_segments(segs):
    from src.alignment.alignment_position import AlignedPair, ScoredAlignedPair
    from src.alignment.segments import AlignmentSegment, EmptyAlignmentSegment
    from src.correlation.optical_map import PositionWithSiteId
    from src.correlation.peak import Peak
    out = []
    for s in segs:
        if s["empty"]:
            out.append(EmptyAlignmentSegment())
            continue
        if s["rv"]:
            ids, ide = 100 - s["qs"], 100 - s["qe"]
        else:
            ids, ide = s["qs"] + 1, s["qe"] + 1
        first = ScoredAlignedPair(AlignedPair(PositionWithSiteId(s["rs"] + 1, s["rs"]),
                                              PositionWithSiteId(ids, s["qs"]), 0), 1.)
        if s["rs"] == s["re"] and s["qs"] == s["qe"]:
            pos = [first]
        else:
            pos = [first, ScoredAlignedPair(AlignedPair(PositionWithSiteId(s["re"] + 1, s["re"]),
                                                        PositionWithSiteId(ide, s["qe"]), 0), 1.)]
        out.append(AlignmentSegment(pos, s["score"] / s.get("_scale", SCALE), Peak(0, 1.), pos))
    return out


def scaled(v, scale):
    if v == -math.inf:
        return {"inf": True, "v": 0}
    w = v * scale
    iw = int(round(w))
    if abs(w - iw) > 1e-4:
        raise tlc.MachineryError(f"join score {v} is not a multiple of 1/{scale}")
    return {"inf": False, "v": iw}


def run_real(case, chainers=None):
    """chainers: the pipeline builds ONE SegmentChainer per process and calls chain() once per query / reference /
    strand; cases that share the parameters therefore share the chainer object here as well (state that leaks from one
    call into the next is part of what C14 quantifies over: 'for all segment sets', whatever was chained before)"""
    from src.alignment.segment_chainer import SegmentChainer, SequentialityScorer
    par = case["par"]
    scale = par["scale"]
    segs = build_segments([dict(s, _scale=scale) for s in case["segs"]])
    key = (par["mnum"], par["mden"], par["variant"])
    if chainers is not None and key in chainers:
        scorer, chainer = chainers[key]
    else:
        scorer = SequentialityScorer(par["mnum"] / par["mden"], par["variant"])
        chainer = SegmentChainer(scorer)
        if chainers is not None:
            chainers[key] = (scorer, chainer)
    n = len(segs)
    J = [[{"inf": False, "v": 0} for _ in range(n)] for _ in range(n)]
    for a in range(n):
        for b in range(n):
            if a != b and not case["segs"][a]["empty"] and not case["segs"][b]["empty"]:
                J[a][b] = scaled(scorer.getScore(segs[a], segs[b]), scale)
    res = chainer.chain(list(segs))
    idx = {id(s): k for k, s in enumerate(segs, start=1)}
    return J, [idx.get(id(s), 0) for s in res]


def random_case(rng: random.Random):
    variant = rng.choice([0, 0, 1])
    cmax = 6 if variant == 0 else 3
    minus = rng.random() < 0.5
    n = rng.randint(2, 8)
    segs = []
    style = rng.random()
    for _ in range(n):
        if rng.random() < 0.2:
            rs = re_ = rng.randint(0, cmax)
            qs = qe = max(0, min(cmax, rs + rng.randint(-1, 1)))
        else:
            rs = rng.randint(0, cmax - 1)
            re_ = rng.randint(rs + 1, cmax)
            if style < 0.6:   # near-diagonal
                qs = max(0, min(cmax - 1, rs + rng.randint(-1, 1)))
                qe = max(qs + 1, min(cmax, re_ + rng.randint(-1, 1)))
            else:
                qs = rng.randint(0, cmax - 1)
                qe = rng.randint(qs + 1, cmax)
        segs.append({"rs": rs, "re": re_, "qs": qs, "qe": qe, "rv": bool(minus and rs < re_),
                     "score": rng.choice([1, 3, 6]) * SCALE, "empty": False})
    for _ in range(rng.choice([0, 0, 1, 2])):
        segs.insert(rng.randint(0, len(segs)),
                    {"rs": 0, "re": 0, "qs": 0, "qe": 0, "rv": False, "score": 0, "empty": True})
    m = rng.choice([(0, 1), (1, 2), (1, 1), (2, 1)])
    return {"segs": segs, "par": {"mnum": m[0], "mden": m[1], "variant": variant, "scale": SCALE}}


def signature(rec, failed):
    # D10: the only failing clause is the overlap clause and the offending consecutive members are '-' segments
    if failed == ["no_overlap_beyond_half_of_shorter"] and any(s["rv"] for s in rec["segs"]):
        return "overlap_clause_on_reverse_strand_segments"
    return ""


def _rerun(case):
    chainers = {}
    for prev in case.get("before", []):     # the calls the same chainer object served just before
        run_real(prev, chainers)
    J, res = run_real(case, chainers)
    return {"segs": case["segs"], "par": case["par"], "J": J, "res": res}


REPLAY = ("Trace_Chainer", "Trace_Chainer.cfg", _rerun, ("before",))
HISTORY = 3

def run(ctx: Ctx):
    quick = ctx.tier == "quick"
    rng = random.Random(ctx.seed * 7907 + 14)
    ctx.rule = ("(i) the lattice segment sets MC_Chainer enumerates (printed by TLC; canonical order), (ii) random "
                "sets of 2..8 lattice segments plus 0..2 empty ones in random list order, both strands, both join "
                "variants, multipliers {0,1/2,1,2}; all through the real SegmentChainer with the join matrix observed "
                "from the real SequentialityScorer (exact multiples of 1/55440), judged by TLC (Trace_Chainer: "
                "optimality against every key-ordered subset); sets with the same parameters are chained by ONE chainer "
                "object in sequence, as in the pipeline (a failing case stores the 3 preceding calls for --replay). "
                "non-trivial = distinct set with >= 3 non-empty "
                "segments whose real chain drops at least one of them, or contains a -inf pair")
    ctx.assumptions = ["lattice-scale coordinates (0..6; 0..3 for variant 1) so that every join is an exact multiple "
                       "of 1/55440 (DESIGN.md 2.4): C14 is decided on lattice inputs only",
                       "segment scores >= 1; optimality against tie-consistent orders, tie groups <= 4",
                       "query coordinates ascend along the reference on both strands (what Aligner feeds the chainer)"]
    mc_res = {}

    def mc():
        try:
            mc_res["r"] = tlc.run_tlc("MC_Chainer", "MC_Chainer.cfg" if quick else "MC_Chainer_thorough.cfg",
                                      ctx.workdir, workers=6 if quick else 12, heap_gb=16)
            mc_res["d10"] = tlc.run_tlc("MC_Chainer", "MC_Chainer_d10.cfg", ctx.workdir, workers=2,
                                        allow_violation=True)
        except Exception as e:
            mc_res["err"] = e

    th = threading.Thread(target=mc)
    th.start()
    space = batch.export_by_print("MC_Chainer", "Export_Chainer.cfg" if quick else "Export_Chainer_thorough.cfg",
                                  ctx.workdir, workers=4)
    if quick:
        space = space[::3]
    cases = list(space)
    n_rand = 3000 if quick else 60000
    for _ in range(n_rand):
        cases.append(random_case(rng))
    records = []
    chainers = {}
    history = {}
    for case in cases:
        hkey = (case["par"]["mnum"], case["par"]["mden"], case["par"]["variant"])
        before = list(history.get(hkey, []))
        history[hkey] = (before + [{"segs": case["segs"], "par": case["par"]}])[-HISTORY:]
        try:
            J, res = run_real(case, chainers)
        except tlc.MachineryError:
            raise
        except Exception as e:      # the real scorer / chainer raised on a valid segment set: no result exists
            ctx.violation({"segs": case["segs"], "par": case["par"], "exception": repr(e), "before": before},
                          ["chainer_raised_" + type(e).__name__], "",
                          what=f"{type(e).__name__} on segs={[(s['rs'], s['re'], s['qs'], s['qe']) for s in case['segs'] if not s['empty']]} par={case['par']}")
            continue
        rec = {"segs": case["segs"], "par": case["par"], "J": J, "res": res, "before": before}
        records.append(rec)
        ne = [s for s in case["segs"] if not s["empty"]]
        kept = [k for k in res if not case["segs"][k - 1]["empty"]]
        if len(ne) >= 3 and (len(kept) < len(ne) or any(x["inf"] for row in J for x in row)):
            ctx.nontrivial(repr((case["segs"], case["par"])))
    verdicts, r = batch.validate("Trace_Chainer", "Trace_Chainer.cfg", ctx.workdir,
                                 [{k: v for k, v in x.items() if k != "before"} for x in records])
    ctx.add_traces(len(records))
    ctx.notes["trace_validation"] = {"states": r.distinct, "wall_s": round(r.wall_s, 1),
                                     "from_tlc_exported_space": len(space), "random": n_rand}
    for tid, (failed, drift) in sorted(verdicts.items()):
        rec = records[tid]
        if failed:
            ctx.violation(rec, failed, signature(rec, failed),
                          what=f"segs={[(s['rs'], s['re'], s['qs'], s['qe'], s['rv']) for s in rec['segs'] if not s['empty']]} "
                               f"res={rec['res']} par={rec['par']}")
        elif drift:
            ctx.add_drift(1, {"drift": drift, "segs": rec["segs"], "res": rec["res"]})
    big = [x for x in records if len(x["segs"]) >= 5]
    for s in (big[:1] + records[:1]):
        ctx.sample({"segs": s["segs"], "par": s["par"], "res": s["res"],
                    "J_row1": s["J"][0]})
    th.join()
    if "err" in mc_res:
        raise mc_res["err"]
    ctx.add_model("MC_Chainer", mc_res["r"])
    ctx.exhaustive = True
    if not mc_res["d10"].invariant_violated:
        raise tlc.MachineryError("MC_Chainer_d10: the D10 deviation no longer violates C14 in the model")
    ctx.notes["named_deviation_D10"] = ("ReverseNegatesQueryDistance=TRUE violates Inv_C14 in the model "
                                        "(overlapping '-' segments chained)")
