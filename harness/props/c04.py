"""C04 - Confidence is exactly the configured score of what is reported (Aligner.align level; the file level -
Confidence column vs recomputation from the raw CMAP text - is added by the pipeline checks)."""
from __future__ import annotations

from lib import alignlib
from lib.core import Ctx
from props import align_common


def run(ctx: Ctx):
    ctx.rule = ("[end of pipeline] the rows Program.run() returns in modes best / joined / separate on generated CMAP sets "
                "with 8 parameter vectors (one-decimal coordinates): TLC recomputes offsets, scores and the sum from the "
                "raw coordinates and compares with the Confidence column. [candidate level] rows built by the real Aligner.align (factory wiring) from lattice inputs printed by TLC and from "
                "realistic ladders with parameter vectors drawn from sp{600,1000} dp{0.5,1,2} su{-100,-250,-500} "
                "d{500,1500,3000} ms{600,1000,2000} bs{600,1200,2500}; TLC (Trace_AlignCore) recomputes every pair's "
                "offset from the raw maps and the segment's peak, every position score from the parameters the "
                "harness passed, the confidence as the sum, checks that no label inside a segment's span is "
                "unaccounted and none is counted twice. non-trivial = distinct input whose row has >= 1 unpaired "
                "label inside a segment or >= 2 segments. [wiring] random subsets of the 17 scoring / seeding options with "
                "sentinel values through the real Args.parse and WorkflowCoordinatorFactory.create: every given value "
                "must be the one found in the component field it feeds (Wiring.tla)")
    ctx.assumptions = ["scores are multiplied by the denominator of distancePenaltyMultiplier and compared exactly",
                       "a label 'inside a segment's span' = strictly between the first and last position of the "
                       "segment in absolute position"]
    records, verdicts = align_common.explore(ctx, "C04", 4)
    for rec in records:
        segs = [s for s in rec["obs"]["segs"] if s["pos"]]
        if len(segs) >= 2 or any(p["k"] != "P" for s in segs for p in s["pos"]):
            ctx.nontrivial(repr((rec["in"]["ref"], rec["in"]["qry"], rec["in"]["peaks"], rec["in"]["rev"],
                                 rec["in"]["par"])))
    for rec, mine, drift, allf in verdicts:
        if mine:
            sig = ""
            ctx.violation(rec, mine, sig, what=f"peaks={rec['in']['peaks']} rev={rec['in']['rev']} "
                                               f"conf={rec['obs']['conf']} par={rec['in']['par']}")
        elif drift and not allf:
            ctx.add_drift(1, {"in": rec["in"], "conf": rec["obs"]["conf"]})
    # ---- end of the pipeline: rows returned by Program.run() vs raw CMAP coordinates, passed parameters and the
    #      Confidence column of the file (Trace_RowScore)
    from lib import batch
    from props import pipe_common
    quick = ctx.tier == "quick"
    res = pipe_common.explore(ctx, 16 if quick else 300, n_qry=12, salt=4, keep_rows=True, modes=["best", "joined", "separate"],
                              kinds=["split", "indel", "dropped", "stretched", "noisy", "partial", "mirror", "chimeric",
                                     "swapped", "exact", "dup", "split"])
    slines = [ln for r in res for ln in r["summary"].get("score_lines", [])]
    if slines:
        v2, r2 = batch.validate("Trace_RowScore", "Trace_RowScore.cfg", ctx.workdir,
                                [{k: v for k, v in ln.items() if k != "tag"} for ln in slines], name="rowscore.ndjson")
        ctx.add_traces(len(slines))
        ctx.notes["pipeline_rows"] = {"rows": len(slines), "second_pass_or_joined": sum(1 for ln in slines if ln["tag"]["mode"] == "joined" or ln["tag"]["rest"] == "True"),
                                      "multi_segment": sum(1 for ln in slines if ln["tag"]["segments"] >= 2)}
        for ln in slines:
            if ln["tag"]["segments"] >= 2:
                ctx.nontrivial(("row", ln["tag"]["input"], ln["tag"]["mode"], ln["tag"]["query"]))
        for tid, (failed, drift) in sorted(v2.items()):
            if failed:
                ctx.violation(slines[tid], ["C04:" + c for c in failed], "", what=f"{slines[tid]['tag']} conf={slines[tid]['conf']} written={slines[tid]['written']}")
    # ---- which option reaches which component (Wiring.tla)
    import random
    from props import wiring
    wiring.explore(ctx, 60 if quick else 1500, random.Random(ctx.seed * 17 + 4))
    multi = [x for x in records if alignlib.multi_segment(x)]
    for s in multi[:2] + records[:1]:
        ctx.sample({"in": s["in"], "conf": s["obs"]["conf"],
                    "segments": [{"peak": g["peak"], "positions": len(g["pos"])} for g in s["obs"]["segs"]]})
