"""C16 - vectorisation, blur and bin-to-bp mapping are exact; seeds are the top peaks.

(A) TLC: MC_Vectorise (sliding-window state machine, blur, bin centre, top-N selection) against the C16 clauses.
(B) the same small cases printed by TLC + random larger ones through the REAL vectorisePositions / blur /
    toRelativeGenomicPositions / PeaksSelector.selectPeaks.
(C) Trace_Vectorise: TLC evaluates the clauses on every real result and replays the model (drift).
"""
from __future__ import annotations

import random
import threading
from types import SimpleNamespace

from lib import batch, tlc
from lib.core import Ctx
from lib import repo  # noqa: F401
from props import seeding, worker


_GENERATORS = {}
_BUF = []
_CASE = [0]


def run_real(case):
    import numpy as np
    from src.correlation.vectorise import vectorisePositions, blur
    from src.correlation.optical_map import toRelativeGenomicPositions
    from src.correlation.peaks_selector import PeaksSelector
    from src.correlation.peak import Peak
    kind, v = case["kind"], case["vin"]
    den = case.get("den", 1)
    if den != 1:       # one-decimal coordinates (what the CMAP reader delivers): the case is stored in deci-bp for TLC, the
        # real functions get pos/den (floats), res/den, start/den, end/den (whole numbers); the bit vector is the same
        v = dict(v, pos=[x / den for x in v["pos"]], res=v["res"] // den, start=v["start"] // den, end=v["end"] // den)
    if kind == "vec":
        end = v["end"] if v["end"] != 0 else None
        return [int(x) for x in vectorisePositions(list(v["pos"]), v["res"], v["start"], end)]
    if kind == "seq":   # the composed entry point the correlation uses: window + blur + strand
        from src.correlation.optical_map import OpticalMap
        from src.correlation.sequence_generator import SequenceGenerator
        end = v["end"] if v["end"] != 0 else None
        # one generator per (resolution, blur) for all cases, as the coordinator keeps its two generators for a run.
        # Every case is its own map (own id), but the label LIST object is one buffer refilled in place: a list's
        # identity says nothing about its content (a generator must not remember label lists by identity)
        _CASE[0] += 1
        _BUF[:] = v["pos"]
        om = OpticalMap(10 + _CASE[0], int(max(v["pos"])) + 1, _BUF)
        sg = _GENERATORS.setdefault((v["res"], v["r"]), SequenceGenerator(v["res"], v["r"]))
        return [int(x) for x in om.getSequence(sg, v["rev"], v["start"], end)]
    if kind == "blur":
        return [int(x) for x in blur(list(v["v"]), v["r"])]
    if kind == "bin":
        b = (v["x"] - v["start"]) // v["res"]
        return int(toRelativeGenomicPositions(np.array([b]), v["res"], v["start"])[0])
    if kind == "cpk":   # the per-correlation cut: CorrelationResult.createPeaks over find_peaks-style arrays
        from src.correlation.optical_map import CorrelationResult
        scores = v["scores"]
        n = len(scores)
        props = {"peak_heights": np.array([float(s) for s in scores]),
                 "left_ips": np.array([10. * i - 2 for i in range(1, n + 1)]),
                 "right_ips": np.array([10. * i + 2 for i in range(1, n + 1)])}
        peaks = CorrelationResult.createPeaks(np.array([10 * i for i in range(1, n + 1)], dtype=int), props, 1, 0, 0,
                                              v["count"])
        # position 10*i (resolution 1, start 0: the bin centre is the bin itself) identifies the peak
        return [int(p.position) // 10 if int(p.position) % 10 == 0 and float(p.height) == float(scores[int(p.position) // 10 - 1])
                else 0 for p in peaks]
    if kind == "sel":
        # spread the peaks over up to three correlations, keeping the global order of enumeration
        scores = v["scores"]
        # peaks of DIFFERENT correlations may be equal as Peak objects (Peak.__eq__ looks at position, height and bases, not at
        # the score or the correlation): position 100 * (i mod 3) makes the k-th peak of each third coincide
        peaks = [Peak(100 * (i % 3 + 1), 1., 0, 0, float(s)) for i, s in enumerate(scores, start=1)]
        cut1, cut2 = len(peaks) // 3, 2 * len(peaks) // 3
        cors = [SimpleNamespace(peaks=peaks[:cut1]), SimpleNamespace(peaks=peaks[cut1:cut2]),
                SimpleNamespace(peaks=peaks[cut2:])]
        sel = PeaksSelector(v["count"]).selectPeaks(iter(cors))
        index = {id(p): i for i, p in enumerate(peaks, start=1)}
        return [index.get(id(s.peak), 0) for s in sel]
    raise ValueError(kind)


def random_case(rng: random.Random):
    u = rng.random()
    if u < 0.45:
        n = rng.randint(1, 25)
        res = rng.choice([1, 2, 7, 100, 1400])
        x = rng.randint(0, 5 * res)
        pos = []
        for _ in range(n):
            pos.append(x)
            x += rng.choice([0, 1, res - 1, res, res + 1, 3 * res, rng.randint(0, 6 * res)])
        start = rng.choice([0, 0, -3 * res, pos[0], pos[0] - 1, pos[len(pos) // 2], rng.randint(-2 * res, pos[-1] + res)])
        end = rng.choice([0, 0, pos[-1], pos[-1] - 1, pos[len(pos) // 2], start + 4 * res, pos[-1] + 3 * res])
        if end != 0 and end < start:
            end = 0
        extra = {}
        if rng.random() < 0.3:
            # coordinates with one decimal: everything times 10, labels moved off the whole base pairs
            pos = sorted(10 * x + rng.choice([0, 1, 4, 5, 9]) for x in pos)
            res, start, end = 10 * res, 10 * start, 10 * end
            extra = {"den": 10}
        if rng.random() < 0.5:
            return dict({"kind": "seq", "vin": {"pos": pos, "res": res, "start": start, "end": end,
                                                "r": rng.choice([0, 0, 1, 2, 3]), "rev": rng.random() < 0.4}}, **extra)
        return dict({"kind": "vec", "vin": {"pos": pos, "res": res, "start": start, "end": end}}, **extra)
    if u < 0.65:
        n = rng.randint(0, 40)
        return {"kind": "blur", "vin": {"v": [1 if rng.random() < 0.2 else 0 for _ in range(n)], "r": rng.randint(0, 6)}}
    if u < 0.8:
        res = rng.choice([1, 2, 3, 100, 1400, 1401])
        start = rng.choice([0, -16000, 12345])
        return {"kind": "bin", "vin": {"x": start + rng.randint(0, 50 * res), "res": res, "start": start}}
    if u < 0.9:
        n = rng.randint(0, 40)
        return {"kind": "cpk", "vin": {"scores": [rng.randint(1, 9) if rng.random() < 0.5 else rng.randint(1, 40)
                                                  for _ in range(n)], "count": rng.choice([1, 3, 3, 10, 10, rng.randint(0, 12)])}}
    n = rng.randint(0, 12)
    return {"kind": "sel", "vin": {"scores": [rng.randint(1, 6) for _ in range(n)], "count": rng.randint(0, 8)}}


def _rerun(case):
    return dict(case, obs=run_real(case))


REPLAY = ("Trace_Vectorise", "Trace_Vectorise.cfg", _rerun, ("den",))

def run(ctx: Ctx):
    quick = ctx.tier == "quick"
    rng = random.Random(ctx.seed * 3571 + 16)
    ctx.rule = ("the small cases MC_Vectorise enumerates (label lists on 0..7/9, resolutions 1..4, negative starts, "
                "ends before the last label and end=0; all bit vectors up to length 5/7 with radii 0..3; bin mapping "
                "for resolutions 1..12; peak lists with tied scores and counts 0..4), printed by TLC, plus random "
                "larger cases (resolutions up to 1400, coincident labels, labels on bin edges); through the real "
                "functions, every window also through the composed OpticalMap.getSequence / SequenceGenerator entry "
                "(kind seq: blur and strand included); judged by TLC (Trace_Vectorise). non-trivial = distinct case whose result has both a 0 and "
                "a 1 bit / a tie among scores / a label not at the bin start")
    ctx.assumptions = ["integer or one-decimal coordinates (the latter judged in deci-bp); labels ascending (the reader sorts them); end=0 means 'not given' exactly "
                       "as `end or positions[-1]` treats it"]
    mc_res = {}

    def mc():
        try:
            mc_res["r"] = tlc.run_tlc("MC_Vectorise", "MC_Vectorise.cfg" if quick else "MC_Vectorise_thorough.cfg",
                                      ctx.workdir, workers=6 if quick else 12, heap_gb=16)
        except Exception as e:
            mc_res["err"] = e

    th = threading.Thread(target=mc)
    th.start()
    space = batch.export_by_print("MC_Vectorise", "Export_Vectorise.cfg" if quick else "Export_Vectorise_thorough.cfg",
                                  ctx.workdir, workers=4)
    if quick:
        space = space[::2]
    # every exported window also goes through the composed entry point OpticalMap.getSequence (blur 0/1, both strands)
    seqs = [{"kind": "seq", "vin": dict(c["vin"], r=j % 2, rev=(j // 2) % 2 == 1)}
            for j, c in enumerate(x for x in space if x["kind"] == "vec")]
    cases = list(space) + seqs + [random_case(rng) for _ in range(4000 if quick else 100000)]
    records = []
    for c in cases:
        try:
            obs = run_real(c)
        except Exception as e:
            obs = [-1] if c["kind"] != "bin" else -10 ** 9
        records.append(dict({"kind": c["kind"], "vin": c["vin"], "obs": obs}, **({"den": c["den"]} if "den" in c else {})))
        v = c["vin"]
        if (c["kind"] in ("vec", "seq") and isinstance(obs, list) and 0 in obs and 1 in obs) or \
           (c["kind"] == "blur" and 1 in v["v"] and 0 in v["v"] and v["r"] > 0) or \
           (c["kind"] == "bin" and (v["x"] - v["start"]) % v["res"] != 0) or \
           (c["kind"] == "cpk" and v["count"] < len(v["scores"])) or \
           (c["kind"] == "sel" and len(set(v["scores"])) < len(v["scores"]) and 0 < v["count"] < len(v["scores"])):
            ctx.nontrivial(repr(c))
    verdicts, r = batch.validate("Trace_Vectorise", "Trace_Vectorise.cfg", ctx.workdir,
                                 [{k: v for k, v in x.items() if k != "den"} for x in records])
    ctx.add_traces(len(records))
    ctx.notes["trace_validation"] = {"states": r.distinct, "wall_s": round(r.wall_s, 1),
                                     "from_tlc_exported_space": len(space)}
    for tid, (failed, drift) in sorted(verdicts.items()):
        rec = records[tid]
        if failed:
            ctx.violation(rec, failed, "", what=f"{rec['kind']} {str(rec['vin'])[:160]} -> {str(rec['obs'])[:80]}")
        elif drift:
            ctx.add_drift(1, rec)
    for kind in ("vec", "seq", "blur", "sel", "cpk"):
        ctx.sample(next(x for x in reversed(records) if x["kind"] == kind), limit=4)
    th.join()
    if "err" in mc_res:
        raise mc_res["err"]
    ctx.add_model("MC_Vectorise", mc_res["r"])
    # the stage that uses all of this: getInitialAlignment against Seeding.tla (seeds are bin centres, the kept ones the highest)
    seeding.run_part(ctx, "C16", model=False)
    # and the coordinator that consumes the seeds: every message of every task replayed against Worker.tla (the refined
    # seeds are the peaksCount highest primary peaks, in descending order)
    worker.run_part(ctx, "C16")
    ctx.exhaustive = True
