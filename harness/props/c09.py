"""C09 - output does not depend on the number of worker processes or on the run.

(A) TLC: MC_Pool - all interleavings of Take / Finish / Yield of the ordered parallel map for 4 tasks x 3 workers
    (thorough 5 x 4), both ways the per-process counter can travel; what reaches the files is schedule independent
    (and the `source` tags are NOT under per-worker shipping: named deviation, shown by MC_Pool_source.cfg).
(B) completion orders enumerated by TLC (Export_Pool: 6 tasks, 3 workers) steer the REAL pathos pool through a
    harness Extension that sleeps inside the worker.
(C) the unmodified CLI with -c 1..16 (byte comparison of every file) and Program(args, [recorder, delayer]) with
    the real pool; Trace_Pool: TLC compares the digests of all runs and checks the recorded executions against the
    Pool model (each task once, tasks handed out in input order, one counter per task).
"""
from __future__ import annotations

import os
import random
import shutil
import time
from typing import Dict, List

from lib import batch, pipecases, pipeline, tlc
from lib.core import Ctx


def make_delayer(ranks: Dict[int, int], delta: float, first_ref: int):
    from src.extensions.extension import Extension
    from src.extensions.messages import InitialAlignmentMessage

    class Delayer(Extension):
        messageType = InitialAlignmentMessage

        def __init__(self, ranks_, delta_, first_ref_):
            self.ranks, self.delta, self.first_ref = ranks_, delta_, first_ref_

        def handle(self, message):
            ia = message.data
            if not ia.reverseStrand and int(ia.reference.moleculeId) == self.first_ref:
                key = (int(ia.query.moleculeId), int(ia.query.shift), len(ia.query.positions))
                whole = self.ranks.get(("n", key[0])) == key[2] and key[1] == 0
                if whole:
                    time.sleep(self.ranks.get(key[0], 0) * self.delta)
                else:   # a second-pass fragment: pseudo-random rank from the schedule's salt (leading vs trailing)
                    import zlib
                    time.sleep((zlib.crc32(repr((self.ranks.get("salt", 0), key)).encode()) % 4) * self.delta)

    return Delayer(ranks, delta, first_ref)


def exec_events(recorded: List[Dict]) -> List[Dict]:
    out = []
    for ev in recorded:
        if ev["ev"] != "Cands" or not ev.get("task"):
            continue
        srcs = sorted({p[2] for c in ev["cands"] for p in c["pairs"]})
        out.append({"task": ev["task"][0], "pid": ev["pid"], "seq": ev["seq"], "sources": srcs,
                    "shift": ev["task"][1], "npos": ev["task"][2]})
    return out


def apalache_pool(workdir: str):
    """thorough tier: the four obligations of the inductive invariant of the ordered parallel map (spec/apalache/
    Apa_Pool.tla, a typed restatement of Pool.tla with per-task shipping): Init => IndInv, IndInv /\\ Next => IndInv',
    IndInv => Inv_C09, IndInv => Inv_C10 - for all states within the generator bound, reachable or not"""
    import subprocess
    out = {}
    spec = os.path.join(os.path.dirname(os.path.dirname(os.path.abspath(__file__))), "..", "spec", "apalache")
    for name, args in (("Init=>IndInv", ["--init=Init", "--inv=IndInv", "--length=0"]),
                       ("IndInv/\\Next=>IndInv'", ["--init=IndInit", "--inv=IndInv", "--length=1"]),
                       ("IndInv=>Inv_C09", ["--init=IndInit", "--inv=Inv_C09", "--length=0"]),
                       ("IndInv=>Inv_C10", ["--init=IndInit", "--inv=Inv_C10", "--length=0"])):
        try:
            p = subprocess.run(["apalache-mc", "check"] + args + ["--out-dir=" + os.path.join(workdir, "apalache"), "Apa_Pool.tla"],
                               cwd=os.path.abspath(spec), stdout=subprocess.PIPE, stderr=subprocess.STDOUT, text=True, timeout=900)
            ok = "The outcome is: NoError" in p.stdout
            out[name] = "NoError" if ok else ("Error" if "The outcome is: Error" in p.stdout else "not run: " + p.stdout[-200:])
        except Exception as e:      # the tool is an extra: its absence is reported, not an error of the check
            out[name] = "not run: " + repr(e)[:200]
    if any(v == "Error" for v in out.values()):
        raise tlc.MachineryError(f"Apalache: an obligation of the inductive invariant of Pool fails: {out}")
    return out


def run(ctx: Ctx):
    quick = ctx.tier == "quick"
    rng = random.Random(ctx.seed * 8191 + 9)
    ctx.rule = ("generated inputs of 11 queries (incl. molecules of 1-5 labels that yield rows without pairs); every run of one (input, mode) must give byte-identical XMAP files "
                "(header lines that echo arguments / host / absolute paths removed): the unmodified CLI with "
                "-c in {1,2,3,5,8,16} and repetitions, each in a fresh interpreter with a different PYTHONHASHSEED "
                "(molecules with an inverted part give first- and second-pass records on opposite strands), Program.run in process with a sequential map, and Program.run "
                "with the real pathos pool steered into completion orders that TLC enumerated from Pool.tla; the same process then "
                "aligns the molecules to another reference file with old and new worker counts (repetition in one process). "
                "non-trivial = distinct run whose recorded executions were spread over >= 2 worker processes, or "
                "a CLI run with -c > 1")
    ctx.assumptions = ["the '# coma', '# hostname', '# Reference Maps From', '# Query Maps From' header lines are excluded "
                       "from the comparison (they echo the arguments and the environment)"]
    mc = tlc.run_tlc("MC_Pool", "MC_Pool.cfg" if quick else "MC_Pool_thorough.cfg", ctx.workdir, workers=6, heap_gb=16)
    ctx.add_model("MC_Pool(per_task)", mc)
    mc2 = tlc.run_tlc("MC_Pool", "MC_Pool_perworker.cfg", ctx.workdir, workers=6)
    ctx.add_model("MC_Pool(per_worker)", mc2)
    live = tlc.run_tlc("MC_Pool", "MC_Pool_live.cfg", ctx.workdir, workers=4)
    ctx.add_model("MC_Pool(liveness: every map delivers every result under weak fairness)", live)
    nofair = tlc.run_tlc("MC_Pool", "MC_Pool_live_x.cfg", ctx.workdir, workers=2, allow_violation=True)
    if nofair.ok:
        raise tlc.MachineryError("MC_Pool_live_x: termination holds without fairness - the liveness property is vacuous")
    src = tlc.run_tlc("MC_Pool", "MC_Pool_source.cfg", ctx.workdir, workers=2, allow_violation=True)
    if not src.invariant_violated:
        raise tlc.MachineryError("MC_Pool_source: source tags are schedule independent under per_worker shipping?")
    ctx.notes["named_deviation_source_tags"] = "Inv_SourceIndependent violated under Ship=per_worker, as expected"
    ctx.exhaustive = True
    if not quick:
        ctx.notes["apalache_inductive_invariant"] = apalache_pool(ctx.workdir)
    schedules = batch.export_by_print("MC_Pool", "Export_Pool.cfg", ctx.workdir, workers=4)
    ctx.notes["tlc_generated_schedules"] = len(schedules)

    n_inputs = 1 if quick else 6
    n_sched = 3 if quick else 14
    cli_cpus = [1, 3, 8] if quick else [1, 2, 3, 5, 8, 16]
    lines, tags = [], []
    run_histories = []
    for k in range(n_inputs):
        inp = pipecases.make_input(rng, n_refs=2, n_qry=11, kinds=["samestart", "flankdup", "samestart", "mirror", "flankdup", "samestart",
                                                    "inversion", "inversion", "tiny", "tiny", "tiny"],
                                   ref_labels=(330, 360), decimals=False, lattice=100, short_contigs=1, sparse_ref=True)
        # sparse_ref: a contig labelled on its first part only + a molecule too long for that part (FIRST task of the run)
        # + two molecules of that part as later tasks: a verdict about a reference must not outlive the task it was made in
        # the molecule of the short contig becomes the neighbour of the longest molecule in the task list (the reader
        # returns molecules in ascending id order): ids doubled, the contig's molecule gets the odd id after the first
        for q in inp["qrys"]:
            q["id"] *= 2
        sc = next(q for q in inp["qrys"] if q["kind"] == "shortcontig")
        inp["qrys"].remove(sc)
        sc["id"] = inp["qrys"][0]["id"] + 1
        inp["qrys"].insert(1, sc)
        wd = os.path.join(ctx.workdir, f"c09-{k}")
        rp, qp = pipecases.write_input(wd, inp, "in")
        qids = [q["id"] for q in inp["qrys"]]
        first_ref = inp["refs"][0]["id"]
        for mode in (["all", "joined", "best", "separate"] if not quick else ["all", "joined"]):
            runs = []
            nrun = 0
            for c in cli_cpus:
                for rep in range(2 if c == cli_cpus[1] else 1):
                    # every CLI run in a fresh interpreter with its own string-hash seed (a user's shell randomises it)
                    r = pipecases.run_once(wd, rp, qp, f"cli_{mode}_{c}_{rep}", mode, cli=True, cpus=c,
                                           hashseed=nrun if nrun < 6 else "random")
                    nrun += 1
                    if r["status"] != "ok":
                        raise tlc.MachineryError(f"CLI run failed: {r['status']} {r['log'][-300:]}")
                    runs.append({"label": f"cli -c {c} #{rep} hashseed {nrun - 1 if nrun <= 6 else chr(114)}", "digest": [f"{n}:{d}" for n, d in sorted(r["digest"].items())]})
                    if c > 1:
                        ctx.nontrivial((k, mode, "cli", c, rep))
            r = pipecases.run_once(wd, rp, qp, f"seq_{mode}", mode, record=False)
            runs.append({"label": "in-process sequential", "digest": [f"{n}:{d}" for n, d in sorted(r["digest"].items())]})
            lines.append({"order": qids, "exec": [], "runs": runs})
            tags.append({"input": k, "mode": mode})
        # steered schedules on the real pool (single pass: tasks = queries)
        runs, execs_all = [], []
        base = pipecases.run_once(wd, rp, qp, "single_seq", "single")
        runs.append({"label": "in-process sequential", "digest": [f"{n}:{d}" for n, d in sorted(base["digest"].items())]})
        for s_i, sched in enumerate(rng.sample(schedules, n_sched)):
            ranks = {qids[t - 1]: pos for pos, t in enumerate(sched)}
            ranks.update({("n", q["id"]): len(q["x"]) for q in inp["qrys"]})
            ranks["salt"] = s_i
            prefix = os.path.join(wd, f"steer{s_i}.rec")
            exts = pipeline.make_recorders(prefix) + [make_delayer(ranks, 0.12, first_ref)]
            out = os.path.join(wd, f"steer{s_i}.xmap")
            argv = pipeline.arg_list(rp, qp, out, "single", 3)
            status, res = pipeline.run_inprocess(argv, exts, single=True, real_pool=True)
            if status != "ok":
                raise tlc.MachineryError(f"steered run failed: {status} {str(res)[-400:]}")
            ev = exec_events(pipeline.read_recorded(prefix))
            runs.append({"label": f"real pool -c 3 steered to finish as {sched}",
                         "digest": [f"main:{pipeline.body_digest(out)}"]})
            lines.append({"order": qids, "exec": [{k2: e[k2] for k2 in ("task", "pid", "seq", "sources")} for e in ev],
                          "runs": [runs[0], runs[-1]]})
            tags.append({"input": k, "mode": "single", "schedule": sched, "pids": len({e["pid"] for e in ev})})
            if len({e["pid"] for e in ev}) >= 2:
                ctx.nontrivial((k, "steered", tuple(sched)))
        # steered completion orders in the multi-pass mode too (second-pass fragments of one query are tasks as well)
        base_all = pipecases.run_once(wd, rp, qp, "all_seq", "all")
        runs_all = [{"label": "in-process sequential", "digest": [f"{n}:{d}" for n, d in sorted(base_all["digest"].items())]}]
        for s_i, sched in enumerate(rng.sample(schedules, n_sched)):
            ranks = {qids[t - 1]: pos for pos, t in enumerate(sched)}
            ranks.update({("n", q["id"]): len(q["x"]) for q in inp["qrys"]})
            ranks["salt"] = 100 + s_i
            out = os.path.join(wd, f"steerall{s_i}.xmap")
            argv = pipeline.arg_list(rp, qp, out, "all", 3)
            status, res = pipeline.run_inprocess(argv, [make_delayer(ranks, 0.1, first_ref)], real_pool=True)
            if status != "ok":
                raise tlc.MachineryError(f"steered multi-pass run failed: {status} {str(res)[-400:]}")
            files = pipeline.output_files(out, "all")
            runs_all.append({"label": f"real pool -c 3, mode all, steered {sched} salt {100 + s_i}",
                             "digest": [f"{n}:{pipeline.body_digest(p)}" for n, p in sorted(files.items())]})
            ctx.nontrivial((k, "steered-all", tuple(sched)))
        lines.append({"order": qids, "exec": [], "runs": runs_all})
        tags.append({"input": k, "mode": "all", "steered": True})
        # the same long-lived process then aligns the molecules to ANOTHER reference file (same map ids, every label
        # 5 kb further on) with the worker counts it has used before and a new one: a repetition must not inherit
        # anything from an earlier run of the process
        inp2 = dict(inp, refs=[dict(r, x=[v + 50000 for v in r["x"]], len=r["len"] + 50000,
                                    bp=[v + 5000 for v in r["bp"]]) for r in inp["refs"]])
        rp2, qp2 = pipecases.write_input(wd, inp2, "in2")
        base2 = pipecases.run_once(wd, rp2, qp2, "again_seq", "all")
        runs2 = [{"label": "other references, in-process sequential",
                  "digest": [f"{n}:{d}" for n, d in sorted(base2["digest"].items())]}]
        again_outs = []
        for c in (3, 2, 3):
            out = os.path.join(wd, f"again{c}_{len(runs2)}.xmap")
            again_outs.append((2, c, out))
            status, res = pipeline.run_inprocess(pipeline.arg_list(rp2, qp2, out, "all", c), [], real_pool=True)
            if status != "ok":
                raise tlc.MachineryError(f"repeated in-process run failed: {status} {str(res)[-400:]}")
            files = pipeline.output_files(out, "all")
            runs2.append({"label": f"other references, real pool -c {c} in the process that ran the steered schedules",
                          "digest": [f"{n}:{pipeline.body_digest(p)}" for n, p in sorted(files.items())]})
            ctx.nontrivial((k, "again", c, len(runs2)))
        lines.append({"order": qids, "exec": [], "runs": runs2})
        tags.append({"input": k, "mode": "all", "repetition_in_one_process": True})
        # the same history as a trace of Runs.tla: which reference file each written record was computed from, read off
        # its RefStartPos (first listed reference label: at x in file 1, at x + 5 kb in file 2)
        refx = {r["id"]: r["x"] for r in inp["refs"]}
        history = []
        for env_no, cpus_no, out in [(1, 3, os.path.join(wd, f"steerall{n_sched - 1}.xmap"))] + again_outs:
            used = []
            for path in pipeline.output_files(out, "all").values():
                for rec in pipeline.parse_xmap(path)["records"]:
                    if rec.get("malformed") or not rec["pairs"] or rec["r"] not in refx:
                        continue
                    x0 = refx[rec["r"]][rec["pairs"][0][0] - 1] if 1 <= rec["pairs"][0][0] <= len(refx[rec["r"]]) else None
                    used.append(1 if rec["rs"] == x0 else 2 if x0 is not None and rec["rs"] == x0 + 50000 else 0)
            history.append({"env": env_no, "cpus": cpus_no, "used": used})
        run_histories.append({"runs": history})
        pipeline.install_sequential_map()
        shutil.rmtree(wd, ignore_errors=True)
    # Runs.tla: the life of the pools across the runs of one process (repetition part of C09)
    for cfg in ("MC_Runs_code.cfg", "MC_Runs_forkclear.cfg", "MC_Runs_argcache.cfg"):
        ctx.add_model(f"MC_Runs({cfg[8:-4]})", tlc.run_tlc("MC_Runs", cfg, ctx.workdir, workers=2))
    stale = tlc.run_tlc("MC_Runs", "MC_Runs_stale.cfg", ctx.workdir, workers=2, allow_violation=True)
    if not stale.invariant_violated:
        raise tlc.MachineryError("MC_Runs_stale: inherited inputs + cached pools no longer violate Inv_Repetition in the model")
    ctx.notes["named_deviation_stale_pool"] = ("Delivery=fork with ClearsPool=FALSE violates Inv_Repetition in Runs.tla, as "
                                               "expected; the code is (argument, TRUE)")
    vr, rr = batch.validate("Trace_Runs", "Trace_Runs.cfg", ctx.workdir, run_histories, name="runs.ndjson")
    ctx.add_traces(len(run_histories))
    ctx.notes["process_histories"] = {"n": len(run_histories), "runs_each": len(run_histories[0]["runs"]),
                                      "records_in_first": [len(x["used"]) for x in run_histories[0]["runs"]]}
    for tid, (failed, drift) in sorted(vr.items()):
        if failed:
            ctx.violation({"history": run_histories[tid]}, failed, "",
                          what=f"process history {tid}: {[(x['env'], x['cpus'], sorted(set(x['used']))) for x in run_histories[tid]['runs']]}")
    verdicts, r = batch.validate("Trace_Pool", "Trace_Pool.cfg", ctx.workdir, lines)
    ctx.add_traces(len(lines))
    ctx.notes["runs_compared"] = sum(len(ln["runs"]) for ln in lines)
    for tid, (failed, drift) in sorted(verdicts.items()):
        if failed:
            ctx.violation({"tag": tags[tid], "line": lines[tid]}, failed, "",
                          what=f"{tags[tid]} digests differ: {[(x['label'], x['digest']) for x in lines[tid]['runs']][:4]}")
        elif drift:
            ctx.add_drift(1, {"tag": tags[tid], "drift": drift})
    ctx.sample({"tag": tags[0], "runs": lines[0]["runs"][:3]})
    ctx.sample({"tag": tags[-1], "exec": lines[-1]["exec"][:4], "runs": lines[-1]["runs"]})
