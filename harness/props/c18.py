"""C18 - XMAP written by COMA reads back to the same alignments.

(B/C) every file the real pipeline writes (all modes, incl. files with zero and one record) is read back with the
project's own XmapReader wired as Program wires it; TLC (Trace_Xmap / C18 clauses) compares every read-back
alignment with the independently parsed text of its record and with the CMAP text.
(A) the record-level model is MC_Xmap (see C02).
"""
from __future__ import annotations

from lib import tlc
from lib.core import Ctx
from props import pipe_common, roundtrip


def run(ctx: Ctx):
    quick = ctx.tier == "quick"
    ctx.rule = ("every XMAP file written by the real pipeline in the four output modes on generated CMAP sets (incl. "
                "inputs with only unalignable queries -> zero records, and single-query inputs -> one record) is read "
                "back with XmapReader(XmapAlignmentPairWithDistanceParser(refs, trimmed queries)); per record TLC "
                "checks ids, orientation, HitEnum, pairs, truncated coordinates/lengths, 2-decimal confidence and "
                "pair coordinates; per file the number and order of alignments. In addition every (maps, matching, strand) "
                "of the MC_Xmap record space (printed by TLC) is turned into a real AlignmentResultRow, written by the "
                "real writer and read back (single-pair records, both strands). non-trivial = distinct file")
    ctx.assumptions = ["read-back uses the project's reader exactly as Program constructs it"]
    mc = tlc.run_tlc("MC_Xmap", "MC_Xmap.cfg", ctx.workdir, workers=6)
    ctx.add_model("MC_Xmap", mc)
    res = pipe_common.explore(ctx, 24 if quick else 300, n_qry=10, with_readback=True, salt=18)
    # degenerate result sets: zero records / one record
    res += pipe_common.explore(ctx, 4 if quick else 24, n_qry=3, with_readback=True, salt=1800, kinds=["junk", "tiny"])
    res += pipe_common.explore(ctx, 4 if quick else 24, n_qry=1, with_readback=True, salt=1801, kinds=["noisy", "mirror"])
    # coordinates beyond 2^31 bp (reference-side values are handed to TLC rebased, see pipe_common.rebase_line)
    res += pipe_common.explore(ctx, 1 if quick else 4, n_qry=2, with_readback=True, salt=1802, kinds=["far"],
                               modes=["best", "separate"])
    # spec -> code: the record space of MC_Xmap through the real row constructor, writer and reader
    rt = roundtrip.explore(ctx, stride=3 if quick else 1)
    for k, x in enumerate(rt):
        info = {k2: v for k2, v in x.items() if k2 != "lines"}
        ctx.nontrivial(("roundtrip", k))
        if x["readback"] != "ok":
            ctx.violation(dict(info, file=k), ["reader_raised_" + x["readback"]], "", what=f"synthetic file {k}: {info}")
        elif x["n_records"] != x["n_cases"] or x["malformed"] or x["readback_n"] != x["n_records"]:
            ctx.violation(dict(info, file=k), ["one_alignment_per_record"], "", what=f"synthetic file {k}: {info}")
    ctx.notes["record_space_roundtrip"] = {"files": len(rt), "records": sum(x["n_records"] for x in rt),
                                           "source": "MC_Xmap / Export_Xmap.cfg (every matching on 4x4 labels, both "
                                                     "strands, incl. single-pair records)"}
    lines, out, r = pipe_common.validate_records(ctx, res + [{"lines": x["lines"]} for x in rt], "C18")
    nfiles = 0
    for rr in res:
        for mode, ms in rr["summary"]["modes"].items():
            for name, f in ms["files"].items():
                if f is None:
                    if ms["status"] == "ok":
                        ctx.violation({"input": rr["summary"]["idx"], "mode": mode, "file": name}, ["file_was_written"],
                                      "", what=f"mode={mode} file={name} missing")
                    continue
                nfiles += 1
                ctx.nontrivial((rr["summary"]["idx"], len(rr["summary"]["qrys"]), mode, name))
                for note in f.get("selection_notes", []):
                    ctx.add_drift(1, {"input": rr["summary"]["idx"], "mode": mode, "file": name, "reader_with_selection": note})
                n = len(f["records"])
                if f.get("readback") != "ok":
                    ctx.violation({"input": rr["summary"]["idx"], "mode": mode, "file": name, "records": n,
                                   "readback": f.get("readback")}, ["reader_raised_" + str(f.get("readback"))],
                                  "zero_record_file" if n == 0 else "",
                                  what=f"mode={mode} file={name} records={n} readback={f.get('readback')}")
                elif f.get("readback_n") != n:
                    ctx.violation({"input": rr["summary"]["idx"], "mode": mode, "file": name, "records": n,
                                   "readback_n": f.get("readback_n")}, ["one_alignment_per_record"], "",
                                  what=f"mode={mode} file={name} records={n} read back {f.get('readback_n')}")
    ctx.notes["pipeline"] = {"inputs": len(res), "files": nfiles, "records": len(lines),
                             "zero_record_files": sum(1 for rr in res for ms in rr["summary"]["modes"].values()
                                                      for f in ms["files"].values() if f and not f["records"])}
    for ln, mine, drift, allf in out:
        if mine:
            ctx.violation(ln, mine, "", what=f"input={ln['tag']['input']} mode={ln['tag']['mode']} "
                                             f"file={ln['tag']['file']} query={ln['rec']['q']}")
    for ln in lines[:2]:
        ctx.sample({"rec": {k: v for k, v in ln["rec"].items() if k != "hit"}, "rb": ln.get("rb"), "tag": ln["tag"]})
