"""Shared by C01 / C04 (and C07's component part): Aligner.align level exploration.

(A) TLC: MC_AlignCore - the composed model (Pairing -> Segmenter -> Chainer -> Resolver -> Row) satisfies the
    alignment-level invariants on every small lattice input.
(B) the lattice inputs printed by TLC (chainer replayed) and realistic ladder inputs (chain order logged) go
    through the REAL Aligner built with the factory wiring.
(C) Trace_AlignCore: TLC evaluates the C01 and C04 clauses on every real row and replays the composed model.
"""
from __future__ import annotations

import threading

from lib import alignlib, batch, gen, tlc
from lib.core import Ctx


def strip(rec):
    r = dict(rec)
    r["obs"] = {k: v for k, v in rec["obs"].items() if k != "hdr"}
    return r


def explore(ctx: Ctx, prefix: str, seed_salt: int):
    quick = ctx.tier == "quick"
    mc_res = {}

    def mc():
        try:
            mc_res["r"] = tlc.run_tlc("MC_AlignCore", "MC_AlignCore.cfg" if quick else "MC_AlignCore_thorough.cfg",
                                      ctx.workdir, workers=6 if quick else 12, heap_gb=16, timeout=5400)
            if not quick:
                # beyond the exhaustive bounds: random behaviours of the same model with larger constants
                # (4-6 reference labels on 0..8, 3-4 query labels, 3-4 seed peaks, maxD 1-2, join multiplier 0/1)
                mc_res["sim"] = tlc.run_tlc("MC_AlignCore", "MC_AlignCore_sim.cfg", ctx.workdir, workers=8, heap_gb=8,
                                            simulate="num=20000", depth=200, timeout=3600,
                                            extra=["-seed", str(ctx.seed + 1)])
        except Exception as e:
            mc_res["err"] = e

    th = threading.Thread(target=mc)
    th.start()
    space = batch.export_by_print("MC_AlignCore", "Export_AlignCore.cfg", ctx.workdir, workers=4)
    step = 4 if quick else 1
    # model-guided inputs: random walks of the same model with larger constants; TLC prints the input whenever the walk
    # reaches a resolver situation that random real inputs rarely reach (a member cut down to one pair compared
    # again, a cut strictly inside the overlap, a comparison that skips an emptied member)
    guided = batch.export_by_print("MC_AlignCore", "Guided_AlignCore.cfg", ctx.workdir, workers=8,
                                   simulate="num=%d" % (500 if quick else 20000), depth=200,
                                   extra=["-seed", str(ctx.seed + 11)], timeout=1800)
    lattice = [alignlib.run_align(inp, True) for inp in space[::step] + guided]
    n = 4000 if quick else 80000
    ladder = gen.parallel(alignlib.ladder_records, ctx.seed * 9176 + seed_salt, n, chunk=250)
    records = lattice + ladder
    verdicts, r = batch.validate("Trace_AlignCore", "Trace_AlignCore.cfg", ctx.workdir, [strip(x) for x in records],
                                 workers=16)
    ctx.add_traces(len(records))
    ctx.notes["trace_validation"] = {"states": r.distinct, "wall_s": round(r.wall_s, 1),
                                     "lattice_inputs_from_tlc": len(lattice), "of_which_model_guided": len(guided), "ladder_inputs": len(ladder),
                                     "multi_segment_rows": sum(1 for x in records if alignlib.multi_segment(x))}
    out = []
    for tid, (failed, drift) in sorted(verdicts.items()):
        mine = [c for c in failed if c.startswith(prefix + ":") or c.startswith("align_raised")]
        out.append((records[tid], mine, drift, failed))
    th.join()
    if "err" in mc_res:
        raise mc_res["err"]
    ctx.add_model("MC_AlignCore", mc_res["r"])
    if "sim" in mc_res:
        ctx.add_model("MC_AlignCore (-simulate, larger constants)", mc_res["sim"], exhaustive=False)
    ctx.exhaustive = True
    return records, out
