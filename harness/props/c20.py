"""C20 - indel calls are self-consistent and clustering conserves every call.

(A) TLC: MC_Indels - every sorted list of <= 4 calls on two chromosomes, coordinates 0..5, blur 2: the clustering
    loop as modelled conserves every call; the pinned-commit deviation D9 (silent drop) is shown separately.
(B) the same lists (scaled to the real blur of 30 000) and random sorted lists through the REAL cluster_indels and
    write_indel_file (the written file is parsed independently); alignments / breakpoints through both
    look_for_indels_in_breakage finders.
(C) Trace_Indels: TLC evaluates the C20 clauses on every real result and replays the loop (drift).
"""
from __future__ import annotations

import copy
import os
import random
import sys
import threading
from types import SimpleNamespace

from lib import batch, tlc
from lib.core import Ctx
from lib import repo
from lib.repo import REPO

SCALE = 15000      # lattice coordinate 1 = 15 kb, so that blur 2 on the lattice = the real PositionBlur 30 000


def sv_modules():
    sv = os.path.join(REPO, "sv")
    if sv not in sys.path:
        sys.path.insert(0, sv)
    import write_indel_files
    import molecule_indels
    import segment_indels
    return write_indel_files, molecule_indels, segment_indels


def as_line(c):
    return [c["type"], c["chr"], c["rs"], c["re"], c["qid"], c["qs"], c["qe"], c["len"]]


def observe_clusters(out):
    obs = []
    for ln in out:
        ids = [int(x) for x in str(ln[4]).split(",")]
        obs.append({"type": ln[0], "chr": int(ln[1]), "rs": int(ln[2]), "re": int(ln[3]), "ids": ids,
                    "count": int(ln[8]) if len(ln) > 8 else -1})
    return obs


def random_calls(rng: random.Random):
    n = rng.randint(0, 12)
    typ = rng.choice(["insertion", "deletion"])
    calls = []
    ids = rng.sample(range(1, 140), n)      # short and long ids: some are decimal substrings of others
    for i in range(n):
        ch = rng.randint(1, 3)
        rs = rng.choice([rng.randint(0, 400000), rng.randint(0, 60000)])
        re_ = rs + rng.randint(500, 60000)
        ln = rng.randint(2001, 90000) * (-1 if typ == "insertion" else 1)
        calls.append({"type": typ, "chr": ch, "rs": rs, "re": re_, "qid": ids[i], "qs": rng.randint(0, 10 ** 5),
                      "qe": rng.randint(0, 10 ** 5), "len": ln})
    calls.sort(key=lambda c: (c["chr"], c["re"]))
    return calls


_QID = [0]


def finder_calls(rng: random.Random, mol, seg):
    """alignments and break points for the two finders; returns the calls they emit"""
    out = []
    from src.correlation.optical_map import OpticalMap      # the maps the tools get from CmapReader are OpticalMap objects
    rpos = [1000 + 9000 * i + rng.randint(0, 3000) for i in range(60)]
    ref = OpticalMap(2, rpos[-1] + 1000, rpos)
    for trial in range(6):
        n = rng.randint(6, 20)
        r0 = rng.randint(1, 30)
        b = rng.randint(1, n - 2)
        shift = rng.choice([-1, 1]) * rng.choice([150, 1500, 2500, 9000, 60000, 150000])
        qpos = []
        for j in range(n):
            v = ref.positions[r0 - 1 + j] - ref.positions[r0 - 1] + (shift if j > b else 0)
            qpos.append(v)
        if min(qpos) < 0:
            qpos = [v - min(qpos) for v in qpos]
        if sorted(qpos) != qpos:
            continue
        if trial % 2 == 1:
            # the same molecule read from its other end, aligned on the reverse strand: ascending reference labels,
            # descending query labels (what AlignmentResultRow.alignedPairs lists for orientation '-')
            top = qpos[-1] + rng.randint(0, 5000)
            qry = OpticalMap(0, top + 1, [top - v for v in reversed(qpos)])
            pairs = [SimpleNamespace(reference=SimpleNamespace(siteId=r0 + j), query=SimpleNamespace(siteId=n - j))
                     for j in range(n)]
        else:
            qry = OpticalMap(0, qpos[-1] + 1, qpos)
            pairs = [SimpleNamespace(reference=SimpleNamespace(siteId=r0 + j), query=SimpleNamespace(siteId=j + 1))
                     for j in range(n)]
        _QID[0] += 1
        qid = 100 + _QID[0]          # every invocation is fed another molecule
        if trial == 4:
            qid = 2                  # a molecule id that is also a chromosome id (two separate id spaces)
        qry = OpticalMap(qid, qry.length, qry.positions)
        al = SimpleNamespace(queryId=qid, referenceId=2, alignedPairs=pairs)
        for which, finder, brk in (("molecule", mol.look_for_indels_in_breakage, {qid: [b, pairs[b]]}),
                                   ("segment", seg.look_for_indels_in_breakage, {qid: [[b, "x"]]})):
            res = finder({2: [al]}, {2: ref}, {qid: qry}, brk)
            got = []
            for typ, lines in res.items():
                for ln in lines:
                    got.append({"type": ln[0], "chr": int(ln[1]), "rs": int(ln[2]), "re": int(ln[3]), "qid": int(ln[4]),
                                "qs": int(ln[5]), "qe": int(ln[6]), "len": int(ln[7])})
            out.append({"kind": "finder", "finder": which, "calls": got, "fed": {"qid": qid, "chr": 2, "nbreak": 1}})
            for c in got:        # the call must carry the coordinates of two consecutive pairs of the alignment it was fed
                out.append({"kind": "flank", "finder": which, "call": c,
                            "pairs": [[int(p.reference.siteId), int(p.query.siteId)] for p in pairs],
                            "refx": list(ref.positions), "qryx": list(qry.positions),
                            "tag": {"input": "synthetic", "query": qid, "tool": which}})
            for typ, lines in res.items():
                for ln in lines:
                    out.append({"kind": "call", "finder": which,
                                "call": {"type": ln[0], "chr": int(ln[1]), "rs": int(ln[2]), "re": int(ln[3]),
                                         "qid": int(ln[4]), "qs": int(ln[5]), "qe": int(ln[6]), "len": int(ln[7]),
                                         "listed_under": typ}})
    # the segment-based finder with TWO junctions of opposite sign in one molecule (insertion first / deletion first)
    for trial in range(4):
        n = rng.randint(12, 22)
        r0 = rng.randint(1, 25)
        b1 = rng.randint(1, n // 2 - 2)
        b2 = rng.randint(n // 2, n - 3)
        s1 = rng.choice([-1, 1]) * rng.choice([300, 1500, 4000, 20000])
        s2 = -1 * (1 if s1 > 0 else -1) * rng.choice([300, 1500, 4000, 20000])
        qpos = []
        for j in range(n):
            qpos.append(ref.positions[r0 - 1 + j] - ref.positions[r0 - 1] + (s1 if j > b1 else 0) + (s2 if j > b2 else 0))
        if min(qpos) < 0:
            qpos = [v - min(qpos) for v in qpos]
        if sorted(qpos) != qpos:
            continue
        _QID[0] += 1
        qid = 100 + _QID[0]
        pairs = [SimpleNamespace(reference=SimpleNamespace(siteId=r0 + j), query=SimpleNamespace(siteId=j + 1))
                 for j in range(n)]
        al = SimpleNamespace(queryId=qid, referenceId=2, alignedPairs=pairs)
        res = seg.look_for_indels_in_breakage({2: [al]}, {2: ref}, {qid: OpticalMap(qid, qpos[-1] + 1, qpos)},
                                              {qid: [[b1, "x"], [b2, "x"]]})
        got = []
        for typ, lines in res.items():
            for ln in lines:
                c = {"type": ln[0], "chr": int(ln[1]), "rs": int(ln[2]), "re": int(ln[3]), "qid": int(ln[4]),
                     "qs": int(ln[5]), "qe": int(ln[6]), "len": int(ln[7])}
                got.append(c)
                out.append({"kind": "call", "finder": "segment2", "call": dict(c, listed_under=typ)})
        out.append({"kind": "finder", "finder": "segment2", "calls": got, "fed": {"qid": qid, "chr": 2, "nbreak": 2}})
    return out


def e2e_molecule_indels(args):
    """sv/molecule_indels.run on the files the real COMA writes in mode 'all' (joined / first pass / second pass) for
    a generated input with split and indel molecules; returns Trace_Indels lines of kind 'flank' for every un-merged
    call of the written indel file"""
    import shutil
    from lib import pipecases, pipeline
    seed, idx, workroot = args
    rng = random.Random(seed * 7001 + idx)
    _, mol, _ = sv_modules()
    inp = pipecases.make_input(rng, n_refs=1, n_qry=10, ref_labels=(140, 220), decimals=(idx % 2 == 0),
                               kinds=["split", "indel", "split", "indel", "exact", "split", "indel", "split", "indel", "split"])
    if idx % 2 == 1:
        # a second chromosome with the same number of labels (other gaps) and "twin" molecules: for three (window, gap)
        # choices one split molecule on EACH chromosome, so that two joined molecules have their junction between
        # reference labels with the same numbers on different chromosomes
        from lib import gen
        r1 = inp["refs"][0]
        xs2 = gen.make_reference(rng, len(r1["bp"]), min_gap=2500, mean_gap=9500)
        dx2 = pipecases.deci(xs2, rng if idx % 4 == 1 else None)
        r2 = {"id": r1["id"] + 1, "len": dx2[-1] + rng.randint(10, 200000), "x": dx2, "bp": xs2}
        inp["refs"].append(r2)
        qid = max(q["id"] for q in inp["qrys"]) + 3
        n = len(xs2)
        for _ in range(3):
            w1 = rng.randint(12, 18)
            g = rng.randint(2, 5)
            w0 = rng.randint(4, n - 2 * w1 - g - 5)
            for r in (r1, r2):
                a, _t = gen.cut_query(rng, r["bp"], w0, w0 + w1, sigma=60)
                b, _t = gen.cut_query(rng, r["bp"], w0 + w1 + g, w0 + 2 * w1 + g, sigma=60)
                gap = rng.randint(3000, 12000)
                coords = a + [a[-1] + gap + v for v in b]
                dq = pipecases.deci(coords, rng if idx % 4 == 1 else None)
                inp["qrys"].append({"id": qid, "len": dq[-1] + 10, "x": dq, "kind": "twin", "ref": r["id"], "mirrored": False})
                qid += rng.randint(1, 4)
    wd = os.path.join(workroot, f"c20e2e-{os.getpid()}-{idx}")
    out = {"lines": [], "joined": 0, "status": "ok", "rows": 0}
    try:
        rp, qp = pipecases.write_input(wd, inp, "in")
        res = pipecases.run_once(wd, rp, qp, "o", "all")
        if res["status"] != "ok":
            out["status"] = "coma:" + res["status"]
            return out
        files = pipeline.output_files(os.path.join(wd, "o.xmap"), "all")
        joined = [r for r in res["files"]["main"]["records"] if not r.get("malformed")]
        out["joined"] = len(joined)
        if not joined:
            return out
        target = os.path.join(wd, "indels.txt")
        try:
            mol.run(SimpleNamespace(referenceFile=rp, queryFile=qp, joinedFile=files["main"], firstFile=files["_1"],
                                    secondFile=files["_2"], outputFile=target))
        except Exception as e:
            out["status"] = "finder_raised:" + type(e).__name__
            return out
        refs_by_id = {r["id"]: r for r in inp["refs"]}
        qmap = {q["id"]: q for q in inp["qrys"]}
        jrec = {r["q"]: r for r in joined}

        def deci(txt):
            return int(round(float(txt) * 10))

        first = {r["q"]: r for r in res["files"]["_1"]["records"] if not r.get("malformed")}
        second = {r["q"]: r for r in res["files"]["_2"]["records"] if not r.get("malformed")}
        written, merged = {}, set()
        for ln in open(target):
            if ln.startswith("#") or not ln.strip():
                continue
            c = ln.rstrip("\n").split("\t")
            if (len(c) > 8 and int(c[8]) != 1) or "," in c[4]:
                merged |= {int(x) for x in c[4].split(",")}
            else:
                written[int(c[4])] = {"type": c[0], "chr": int(c[1]), "rs": deci(c[2]), "re": deci(c[3]), "qid": int(c[4]),
                                      "qs": deci(c[5]), "qe": deci(c[6]), "len": deci(c[7])}
        out["finder_lines"] = []
        for q, jr in jrec.items():
            if q in merged or q not in qmap or q not in first or q not in second or int(jr["r"]) not in refs_by_id:
                continue
            out["finder_lines"].append({"fin": {"J": jr["pairs"], "O": first[q]["pairs"], "R": second[q]["pairs"],
                                                "refx": refs_by_id[int(jr["r"])]["x"], "qryx": qmap[q]["x"], "lo": 20000, "hi": 1000000,
                                                "qid": q, "chr": int(jr["r"])},
                                        "obs": [written[q]] if q in written else [], "tag": {"input": idx, "query": q}})
        for ln in open(target):
            if ln.startswith("#") or not ln.strip():
                continue
            c = ln.rstrip("\n").split("\t")
            out["rows"] += 1
            if (len(c) > 8 and int(c[8]) != 1) or "," in c[4]:      # a row without a Count column is judged as an un-merged call
                continue
            q = int(c[4])
            if q not in jrec or q not in qmap or int(jrec[q]["r"]) not in refs_by_id:
                continue
            out["lines"].append({"kind": "flank",
                                 "call": {"type": c[0], "chr": int(c[1]), "rs": deci(c[2]), "re": deci(c[3]), "qid": q,
                                          "qs": deci(c[5]), "qe": deci(c[6]), "len": deci(c[7])},
                                 "pairs": jrec[q]["pairs"], "refx": refs_by_id[int(jrec[q]["r"])]["x"], "qryx": qmap[q]["x"],
                                 "tag": {"input": idx, "query": q}})
    finally:
        shutil.rmtree(wd, ignore_errors=True)
    return out


def e2e_segment_indels(args):
    """sv/segment_indels.run end to end: it runs COMA itself (default mode, a SegmentsCatcher extension), reads the segments
    it caught and the alignment file back and writes the calls at the places where segments were joined; every un-merged
    call of the written file is a Trace_Indels line of kind 'flank' against the query's record in the alignment file"""
    import shutil
    from lib import pipecases, pipeline
    seed, idx, workroot = args
    rng = random.Random(seed * 9001 + idx)
    _, _, seg = sv_modules()
    inp = pipecases.make_input(rng, n_refs=1, n_qry=10, ref_labels=(140, 220), decimals=(idx % 2 == 0),
                               kinds=["smallindel", "indel", "splitindel", "smallindel", "exact", "splitindelrev", "smallindel",
                                      "indel", "noisy", "smallindel"])
    wd = os.path.join(workroot, f"c20seg-{os.getpid()}-{idx}")
    out = {"lines": [], "status": "ok", "rows": 0, "records": 0}
    try:
        rp, qp = pipecases.write_input(wd, inp, "in")
        aligned = os.path.join(wd, "o.xmap")
        target = os.path.join(wd, "segment_indels.txt")
        pipeline.install_sequential_map()
        try:
            seg.run(SimpleNamespace(queryFile=qp, referenceFile=rp, alignedFile=aligned, segmentsFile=os.path.join(wd, "segs.csv"),
                                    outputFile=target, secondaryMargin=16000, peakHeightThreshold=27, segmentJoinMultiplier=1,
                                    sequentialityScore=0, diagnosticsEnabled=False))
        except Exception as e:       # noqa: BLE001
            out["status"] = "finder_raised:" + type(e).__name__
            return out
        recs = {r["q"]: r for r in pipeline.parse_xmap(aligned)["records"] if not r.get("malformed")}
        out["records"] = len(recs)
        ref = inp["refs"][0]
        qmap = {q["id"]: q for q in inp["qrys"]}

        def deci(txt):
            return int(round(float(txt) * 10))

        for ln in open(target):
            if ln.startswith("#") or not ln.strip():
                continue
            c = ln.rstrip("\n").split("\t")
            out["rows"] += 1
            if (len(c) > 8 and int(c[8]) != 1) or "," in c[4]:
                continue
            q = int(c[4])
            if q not in recs or q not in qmap:
                continue
            out["lines"].append({"kind": "flank",
                                 "call": {"type": c[0], "chr": int(c[1]), "rs": deci(c[2]), "re": deci(c[3]), "qid": q,
                                          "qs": deci(c[5]), "qe": deci(c[6]), "len": deci(c[7])},
                                 "pairs": recs[q]["pairs"], "refx": ref["x"], "qryx": qmap[q]["x"],
                                 "tag": {"input": idx, "query": q, "tool": "segment_indels"}})
    finally:
        shutil.rmtree(wd, ignore_errors=True)
    return out


REPLAY = ("Trace_Indels", "Trace_Indels.cfg", None, ("via", "finder", "tag"))     # the stored result is judged as recorded


def run(ctx: Ctx):
    quick = ctx.tier == "quick"
    rng = random.Random(ctx.seed * 523 + 20)
    wif, mol, seg = sv_modules()
    ctx.rule = ("sorted call lists MC_Indels enumerates (<=3-4 calls, 2 chromosomes; printed by TLC and scaled so that the "
                "lattice blur equals the real PositionBlur) and random sorted lists of 0-12 calls on 3 chromosomes "
                "through the real cluster_indels; both types through write_indel_file with the file parsed "
                "independently; synthetic alignments of both orientations with one break point (shifts 150 bp..150 kb) "
                "through both "
                "look_for_indels_in_breakage; sv/molecule_indels.run end to end on the joined / first / second pass files "
                "the real COMA writes for inputs with split and indel molecules (every un-merged call must carry the "
                "coordinates of two consecutive aligned pairs of that query's joined record). non-trivial = distinct list in which two consecutive calls are within "
                "the blur of each other")
    ctx.assumptions = ["input lists are sorted by (chromosome, RefStop) as write_indel_file sorts them, RefStart <= RefStop",
                       "the averaged Length of a merged cluster is not part of the property"]
    mc_res = {}

    def mc():
        try:
            mc_res["r"] = tlc.run_tlc("MC_Indels", "MC_Indels.cfg" if quick else "MC_Indels_thorough.cfg", ctx.workdir,
                                      workers=6, heap_gb=8)
            mc_res["d9"] = tlc.run_tlc("MC_Indels", "MC_Indels_d9.cfg", ctx.workdir, workers=2, allow_violation=True)
        except Exception as e:
            mc_res["err"] = e

    th = threading.Thread(target=mc)
    th.start()
    space = batch.export_by_print("MC_Indels", "Export_Indels.cfg", ctx.workdir, workers=4)
    lists = []
    for cs in (space[::3] if quick else space):
        lists.append([dict(c, rs=c["rs"] * SCALE, re=c["re"] * SCALE, len=2500) for c in cs])
    lists += [random_calls(rng) for _ in range(3000 if quick else 60000)]
    records = []
    for n_list, calls in enumerate(lists):
        given = [as_line(c) for c in copy.deepcopy(calls)]
        out = wif.cluster_indels(given)
        records.append({"kind": "cluster", "calls": calls, "obs": observe_clusters(out)})
        if n_list % 3 == 0:
            # the caller clusters the calls it holds once more (another report of the same finder result): the list
            # object handed over the first time is handed over again and judged against the same calls
            again = wif.cluster_indels(given)
            records.append({"kind": "cluster", "calls": calls, "obs": observe_clusters(again),
                            "via": "second clustering of the same list object"})
        if any(abs(a["re"] - b["re"]) <= 30000 for a, b in zip(calls, calls[1:])):
            ctx.nontrivial(repr(calls))
    # write_indel_file: both types, file parsed independently
    for k in range(40 if quick else 600):
        ins = [dict(c, type="insertion", len=-abs(c["len"])) for c in random_calls(rng)]
        dele = [dict(c, type="deletion", len=abs(c["len"])) for c in random_calls(rng)]
        path = os.path.join(ctx.workdir, "indels.txt")
        found = {"insertion": [as_line(c) for c in copy.deepcopy(ins)],
                 "deletion": [as_line(c) for c in copy.deepcopy(dele)]}
        wif.write_indel_file(found, "x.xmap", file_name=path)
        if k % 2:
            wif.write_indel_file(found, "x.xmap", file_name=path)      # the same finder result written a second time
        rows = [ln.rstrip("\n").split("\t") for ln in open(path) if not ln.startswith("#")]
        for typ, calls in (("insertion", ins), ("deletion", dele)):
            obs = observe_clusters([list(r) for r in rows if r and r[0] == typ])      # a row without Count: count -1
            calls_sorted = sorted(calls, key=lambda c: (c["chr"], c["re"]))
            records.append({"kind": "cluster", "calls": calls_sorted,
                            "obs": sorted(obs, key=lambda o: (o["chr"], o["re"])) if False else obs, "via": "file"})
    fc = []
    for _ in range(60 if quick else 1500):
        fc += finder_calls(rng, mol, seg)
    for c in fc:
        if c["kind"] != "call":
            continue
        listed = c["call"].pop("listed_under")
        if listed != c["call"]["type"]:
            c["call"]["type"] = f"{c['call']['type']}_listed_under_{listed}"
    records += fc
    # end to end: the molecule-based finder on COMA's own files
    import multiprocessing as mp
    n_e2e = 10 if quick else 150
    with mp.get_context("fork").Pool(min(10, n_e2e)) as pool:
        e2e = pool.map(e2e_molecule_indels, [(ctx.seed * 41 + 20, i, ctx.workdir) for i in range(n_e2e)])
    n_seg = 10 if quick else 120
    with mp.get_context("fork").Pool(min(10, n_seg)) as pool:
        e2s = pool.map(e2e_segment_indels, [(ctx.seed * 43 + 20, i, ctx.workdir) for i in range(n_seg)])
    ctx.notes["end_to_end_segment_indels"] = {"inputs": n_seg, "records": sum(r["records"] for r in e2s),
                                              "rows_written": sum(r["rows"] for r in e2s),
                                              "unmerged_calls_judged": sum(len(r["lines"]) for r in e2s),
                                              "status": sorted({r["status"] for r in e2s})}
    for r in e2s:
        if r["status"].startswith("finder_raised"):
            ctx.add_drift(1, {"end_to_end_segment_indels": r["status"]})
    flank = [ln for r in e2e for ln in r["lines"]] + [ln for r in e2s for ln in r["lines"]]
    ctx.notes["end_to_end_molecule_indels"] = {"inputs": n_e2e, "joined_records": sum(r["joined"] for r in e2e),
                                               "rows_written": sum(r["rows"] for r in e2e), "unmerged_calls_judged": len(flank),
                                               "status": sorted({r["status"] for r in e2e})}
    for r in e2e:
        if r["status"].startswith("finder_raised"):
            ctx.add_drift(1, {"end_to_end": r["status"]})
    # the finder itself against Finder.tla: per joined query the junction search and the call are replayed by TLC
    fl = [ln for r in e2e for ln in r.get("finder_lines", [])]
    if fl:
        mcf = tlc.run_tlc("MC_Finder", "MC_Finder.cfg", ctx.workdir, workers=6)
        ctx.add_model("MC_Finder", mcf)
        xa = tlc.run_tlc("MC_Finder", "MC_Finder_x_abort.cfg", ctx.workdir, workers=2, allow_violation=True)
        if xa.invariant_violated != "Inv_FinderNoAbort":
            raise tlc.MachineryError("MC_Finder_x_abort: the abort of the molecule finder is no longer reachable in the model")
        before = dict(batch.KIND_COUNTS)
        vf, rf = batch.validate("Trace_Finder", "Trace_Finder.cfg", ctx.workdir,
                                [{k: v for k, v in x.items() if k != "tag"} for x in fl], name="finder.ndjson")
        ctx.add_traces(len(fl))
        ctx.notes["molecule_finder_replayed"] = {"joined_queries": len(fl), "states": rf.distinct,
                                                 "situations": {k: v - before.get(k, 0) for k, v in batch.KIND_COUNTS.items()
                                                                if k in ("done", "aborted", "call", "no_difference")
                                                                and v - before.get(k, 0)}}
        for tid, (failed, drift) in sorted(vf.items()):
            if failed:
                ctx.violation(fl[tid], failed, "", what=f"molecule finder {fl[tid]['tag']} obs={fl[tid]['obs']}")
            elif drift:
                ctx.add_drift(1, {"molecule_finder": fl[tid]["tag"], "drift": drift})
    for ln in flank:
        ctx.nontrivial(("flank", ln["tag"]["input"], ln["tag"]["query"]))
    records += flank
    payload = [{k: v for k, v in r.items() if k not in ("via", "finder", "tag")} for r in records]
    verdicts, r = batch.validate("Trace_Indels", "Trace_Indels.cfg", ctx.workdir, payload)
    ctx.add_traces(len(records))
    ctx.notes["trace_validation"] = {"states": r.distinct, "wall_s": round(r.wall_s, 1), "from_tlc_exported_space": len(space),
                                     "finder_calls": len(fc)}
    for tid, (failed, drift) in sorted(verdicts.items()):
        rec = records[tid]
        if failed:
            sig = ""
            ctx.violation(rec, failed, sig, what=str(rec)[:300])
        elif drift:
            ctx.add_drift(1, rec)
    ctx.sample(next(x for x in records if x["kind"] == "cluster" and len(x["calls"]) >= 3))
    if fc:
        ctx.sample(fc[0])
    th.join()
    if "err" in mc_res:
        raise mc_res["err"]
    ctx.add_model("MC_Indels", mc_res["r"])
    ctx.exhaustive = True
    if not mc_res["d9"].invariant_violated:
        raise tlc.MachineryError("MC_Indels_d9: the D9 deviation no longer loses a call in the model")
    ctx.notes["named_deviation_D9"] = "DropsOtherChromosome=TRUE violates Inv_C20 in the model"
