"""C19 - alignment comparison partitions keys; measures are bounded and reflexive.

(A) TLC: MC_Compare - every pair of small alignment sets (duplicate keys, empty and duplicated-query pair lists,
    both flag values): the comparer as modelled satisfies the counting / swap / self-comparison clauses.
(B) the same sets printed by TLC and random larger ones through the REAL AlignmentComparer (A,B), (B,A), (A,A).
(C) Trace_Compare: TLC evaluates the C19 clauses on the real results and compares rows with the model (drift).
"""
from __future__ import annotations

import random
import threading

from lib import batch, tlc
from lib.core import Ctx
from lib import repo  # noqa: F401

M = 10 ** 6


_COMPARERS = {}


def fx(v) -> int:
    return int(round(float(v) * M))


def build(als):
    from src.correlation.bionano_alignment import BionanoAlignment
    from src.diagnostic.benchmark_alignment import BenchmarkAlignedPair
    out = []
    for k, a in enumerate(als, start=1):
        pairs = [BenchmarkAlignedPair.create(str(r), str(q)) for r, q in a["pairs"]]
        out.append(BionanoAlignment(k, a["q"], a["r"], 0, 0, 0, 0, False, 1., "", 1, 1, pairs))
    return out


def observe(cmp_):
    rows = []
    for r in cmp_.rows:
        rows.append({"q": int(r.queryId), "r": int(r.referenceId), "type": r.type.name, "idn": fx(r.identity),
                     "c1": fx(r.alignment1Coverage), "c2": fx(r.alignment2Coverage),
                     "x1": [[p.reference.siteId, p.query.siteId] for p in r.alignment1ExclusivePairs],
                     "x2": [[p.reference.siteId, p.query.siteId] for p in r.alignment2ExclusivePairs]})
    return {"ov": int(cmp_.overlapping), "nov": int(cmp_.nonOverlapping), "fo": int(cmp_.firstOnly),
            "so": int(cmp_.secondOnly), "c1": fx(cmp_.avgOverlappingAlignment1Coverage),
            "c2": fx(cmp_.avgOverlappingAlignment2Coverage), "idn": fx(cmp_.avgOverlappingIdentity), "rows": rows}


def run_real(case):
    from src.diagnostic.alignment_comparer import AlignmentComparer, AlignmentRowComparer
    # one comparer per flag for all cases (compare_alignments builds one and may be called repeatedly)
    comparer = _COMPARERS.setdefault(bool(case["flag"]), AlignmentComparer(AlignmentRowComparer(case["flag"])))
    A, B = build(case["A"]), build(case["B"])
    return {"ab": observe(comparer.compare(A, B)), "ba": observe(comparer.compare(B, A)),
            "aa": observe(comparer.compare(A, A))}


def random_case(rng: random.Random):
    def als(n):
        out = []
        for _ in range(n):
            m = rng.choice([0, 1, 3, 8, 20])
            r, q = rng.randint(1, 5), rng.randint(1, 5)
            pairs = []
            rep = rng.random() < 0.3          # pair lists that hold the same (reference, query) pair more than once
            for _ in range(m):
                pairs.append([r, q])
                if rep and rng.random() < 0.25:
                    continue
                r += rng.choice([1, 1, 2])
                q += rng.choice([1, 1, 0, 2])
            out.append({"q": rng.randint(1, 4), "r": rng.randint(1, 3), "pairs": pairs})
        return out
    A = als(rng.randint(0, 6))
    B = als(rng.randint(0, 6))
    if A and rng.random() < 0.5:      # make B overlap A
        for a in rng.sample(A, max(1, len(A) // 2)):
            p = [x for x in a["pairs"] if rng.random() < 0.8]
            B.append({"q": a["q"], "r": a["r"], "pairs": p})
    return {"A": A, "B": B, "flag": rng.random() < 0.5}


def _rerun(case):
    rec = {"A": case["A"], "B": case["B"], "flag": case["flag"]}
    rec.update(run_real(rec))
    return rec


REPLAY = ("Trace_Compare", "Trace_Compare.cfg", _rerun, ())

def run(ctx: Ctx):
    quick = ctx.tier == "quick"
    rng = random.Random(ctx.seed * 4099 + 19)
    ctx.rule = ("alignment sets MC_Compare enumerates (keys from 3 (query,reference) pairs, duplicate keys, pair lists "
                "incl. empty and duplicated query labels, both flags; printed by TLC) and random sets of up to 9 "
                "alignments with up to 20 pairs (some lists hold the same pair more than once) sharing part of their pairs; compared by the real AlignmentComparer as "
                "(A,B), (B,A), (A,A). non-trivial = distinct case in which both sets are non-empty and share a key")
    ctx.assumptions = ["the identity ratio (difflib.SequenceMatcher) is observed, not modelled: only its range and its "
                       "value on self-comparison are demanded; symmetry of the ratio is not (difflib does not give it)"]
    mc_res = {}

    def mc():
        try:
            mc_res["r"] = tlc.run_tlc("MC_Compare", "MC_Compare.cfg", ctx.workdir, workers=6, heap_gb=8)
        except Exception as e:
            mc_res["err"] = e

    th = threading.Thread(target=mc)
    th.start()
    space = batch.export_by_print("MC_Compare", "Export_Compare.cfg", ctx.workdir, workers=4)
    if quick:
        space = space[::12]
    cases = list(space) + [random_case(rng) for _ in range(3000 if quick else 60000)]
    records = []
    for c in cases:
        rec = dict(c)
        rec.update(run_real(c))
        records.append(rec)
        ka = {(a["q"], a["r"]) for a in c["A"]}
        kb = {(a["q"], a["r"]) for a in c["B"]}
        if ka & kb:
            ctx.nontrivial(repr(c))
    verdicts, r = batch.validate("Trace_Compare", "Trace_Compare.cfg", ctx.workdir, records)
    ctx.add_traces(len(records))
    ctx.notes["trace_validation"] = {"states": r.distinct, "wall_s": round(r.wall_s, 1), "from_tlc_exported_space": len(space)}
    for tid, (failed, drift) in sorted(verdicts.items()):
        rec = records[tid]
        if failed:
            ctx.violation(rec, failed, "", what=f"A={rec['A']} B={rec['B']} flag={rec['flag']}"[:300])
        elif drift:
            ctx.add_drift(1, {"A": rec["A"], "B": rec["B"], "flag": rec["flag"], "drift": drift, "ab": rec["ab"]})
    ctx.sample(records[-1])
    th.join()
    if "err" in mc_res:
        raise mc_res["err"]
    ctx.add_model("MC_Compare", mc_res["r"])
    ctx.exhaustive = True
