"""C02 - record fields agree with the listed pairs and with the input maps.

(A) TLC: MC_Xmap - for every valid matching between small maps (non-zero first label, trailing length, decimals,
    both strands) the record computed the way the code computes it satisfies the declarative clauses.
(B/C) every record of every XMAP file of every mode on generated CMAP sets: file TEXT parsed independently,
    compared by TLC (Trace_Xmap) with the CMAP TEXT the harness wrote.
"""
from __future__ import annotations

from lib import tlc
from lib.core import Ctx
from props import pipe_common


def run(ctx: Ctx):
    quick = ctx.tier == "quick"
    ctx.rule = ("every record of every XMAP file (main/_1/_2) of the four output modes on generated CMAP sets (1-3 "
                "references with one-decimal coordinates and trailing length, 12 queries of all kinds incl. mirrored "
                "molecules, non-zero first label, 8 parameter vectors, rows shuffled in a third of the files); fields "
                "parsed from the file text and compared by TLC with the CMAP text (Trace_Xmap / C02 clauses, evaluated "
                "on records that satisfy C01). non-trivial = distinct record that is reverse-strand or second-pass")
    ctx.assumptions = ["coordinates have one decimal (CMAP format); XMAP values are compared as decimal text scaled to "
                       "integers, never as floats"]
    mc = tlc.run_tlc("MC_Xmap", "MC_Xmap.cfg", ctx.workdir, workers=6)
    ctx.add_model("MC_Xmap", mc)
    mcf = tlc.run_tlc("MC_Fragments", "MC_Fragments.cfg", ctx.workdir, workers=6)
    ctx.add_model("MC_Fragments", mcf)
    ctx.exhaustive = True
    res = pipe_common.explore(ctx, 32 if quick else 500, n_qry=12, salt=2, keep_rows=True)
    # spec -> code: the record space of MC_Xmap through the real row constructor and writer (roundtrip.py)
    from props import roundtrip
    rt = roundtrip.explore(ctx, stride=5 if quick else 1)
    ctx.notes["record_space_roundtrip"] = {"files": len(rt), "records": sum(x["n_records"] for x in rt)}
    lines, out, r = pipe_common.validate_records(ctx, res + [{"lines": x["lines"]} for x in rt], "C02")
    for ln in lines:
        if ln["rec"]["ori"] == "-" or ln["rec"]["rest"] == "True":
            ctx.nontrivial((ln["tag"]["input"], ln["tag"]["mode"], ln["tag"]["file"], ln["rec"]["q"]))
    ctx.notes["pipeline"] = {"inputs": len(res), "records": len(lines),
                             "second_pass_records": sum(1 for ln in lines if ln["rec"]["rest"] == "True"),
                             "reverse_records": sum(1 for ln in lines if ln["rec"]["ori"] == "-"),
                             "records_skipped_because_C01_fails": sum(1 for _, _, _, f in out
                                                                      if any(c.startswith("C01:") for c in f))}
    for ln, mine, drift, allf in out:
        if mine:
            ctx.violation(ln, mine, "", what=f"input={ln['tag']['input']} mode={ln['tag']['mode']} "
                                             f"file={ln['tag']['file']} query={ln['rec']['q']} ori={ln['rec']['ori']} "
                                             f"rest={ln['rec']['rest']}")
        elif drift and not allf:
            ctx.add_drift(1, {"tag": ln["tag"], "drift": drift})
    # ---- where second-pass label numbers come from: getUnalignedFragments of every first-pass row (Fragments.tla)
    from lib import batch
    flines = [ln for r_ in res for ln in r_["summary"].get("fragment_lines", [])]
    if flines:
        v2, r2 = batch.validate("Trace_Fragments", "Trace_Fragments.cfg", ctx.workdir,
                                [{k: v for k, v in ln.items() if k != "tag"} for ln in flines], name="frag.ndjson")
        ctx.add_traces(len(flines))
        ctx.notes["fragments"] = {"first_pass_rows": len(flines), "rows_with_fragments": sum(1 for ln in flines if ln["obs"]),
                                  "rows_with_two_fragments": sum(1 for ln in flines if len(ln["obs"]) == 2)}
        for tid, (failed, drift) in sorted(v2.items()):
            if failed:
                ctx.violation(flines[tid], ["C02:" + c for c in failed], "", what=f"{flines[tid]['tag']} row={flines[tid]['row']} obs_shifts={[o['shift'] for o in flines[tid]['obs']]}")
            elif drift:
                ctx.add_drift(1, {"tag": flines[tid]["tag"], "row": flines[tid]["row"], "drift": drift,
                                  "obs": [(o["shift"], len(o["x"])) for o in flines[tid]["obs"]]})
    for ln in [x for x in lines if x["rec"]["rest"] == "True"][:1] + lines[:1]:
        ctx.sample({"rec": {k: v for k, v in ln["rec"].items() if k not in ("hit",)},
                    "qry_x_first_last": [ln["qry"]["x"][0], ln["qry"]["x"][-1]] if ln["qry"]["x"] else [],
                    "tag": ln["tag"]})
