"""Record-level write / read-back of the record space MC_Xmap enumerates (spec -> code direction, C18 and C02):
every (reference map, query map, matching, strand) TLC prints (Export_Xmap.cfg) becomes a REAL AlignmentResultRow
(AlignmentResultRow.create over real OpticalMap positions), is written by the REAL XmapReader.writeAlignments, parsed by
the harness' independent text parser, read back by the project's reader wired as Program wires it, and judged by TLC
(Trace_Xmap: C01 / C02 / C18 record clauses + HeaderImpl drift).

This reaches records the generated pipeline inputs produce only with unusual parameters: single-pair records on
either strand, matchings that skip labels at the ends, first query label at 0 or not, molecules without a tail."""
from __future__ import annotations

import os
import shutil
from types import SimpleNamespace
from typing import Dict, List

from lib import batch, pipeline
from lib.core import Ctx
from props import pipe_common

PER_FILE = 600


def _one_file(wd: str, cases: List[Dict], fileno: int) -> List[Dict]:
    from src.alignment.alignment_position import AlignedPair, ScoredAlignedPair
    from src.alignment.alignment_results import AlignmentResultRow, AlignmentResults
    from src.alignment.segments import AlignmentSegment
    from src.correlation.peak import Peak
    from src.parsers.cmap_reader import CmapReader
    from src.parsers.xmap_reader import XmapReader
    from src.parsers.xmap_alignment_pair_parser import XmapAlignmentPairWithDistanceParser
    os.makedirs(wd, exist_ok=True)
    refs, qrys = [], []
    for k, c in enumerate(cases, start=1):
        refs.append({"id": 2 * k, "len": c["ref"]["len"], "x": c["ref"]["x"]})
        qrys.append({"id": 2 * k + 1, "len": c["qry"]["len"], "x": c["qry"]["x"]})
    rp, qp = os.path.join(wd, f"rt{fileno}_r.cmap"), os.path.join(wd, f"rt{fileno}_q.cmap")
    pipeline.write_cmap(rp, refs, None, fileno % 2 == 0)
    pipeline.write_cmap(qp, qrys, None, fileno % 2 == 1)
    with open(rp) as f:
        rmaps = {int(m.moleculeId): m for m in CmapReader().readReferences(f)}
    with open(qp) as f:
        qmaps = {int(m.moleculeId): m.trim() for m in CmapReader().readQueries(f)}
    rows = []
    for k, c in enumerate(cases, start=1):
        rm, qm = rmaps[2 * k], qmaps[2 * k + 1]
        rpos = {p.siteId: p for p in rm.getPositionsWithSiteIds()}
        qpos = {p.siteId: p for p in qm.getPositionsWithSiteIds(c["rev"])}
        pos = [ScoredAlignedPair(AlignedPair(rpos[r], qpos[q], 0), 1000.) for r, q in c["pairs"]]
        conf = 1000. * len(pos) - 0.25 * (k % 7) - 0.005 * (k % 3)
        # the row's segments: one; a first / last segment of a single pair; halves
        cuts = {0: [], 1: [1], 2: [len(pos) - 1], 3: [len(pos) // 2]}[k % 4]
        bounds = [0] + [x for x in cuts if 0 < x < len(pos)] + [len(pos)]
        segs = [AlignmentSegment(pos[a:b], conf if a == 0 else 0., Peak(0, 1.), pos) for a, b in zip(bounds, bounds[1:])]
        rows.append(AlignmentResultRow.create(SimpleNamespace(segments=segs), 2 * k + 1, 2 * k, qm.length, rm.length,
                                              c["rev"]))
    # what the writer is handed (read from the row objects before the file is written; reading a row is not an event)
    def d10(v):
        return int(round(float(v) * 10))
    given = {}
    for row in rows:
        given[int(row.queryId)] = {
            "q": int(row.queryId), "r": int(row.referenceId), "rev": bool(row.reverseStrand),
            "qs": d10(row.queryStartPosition), "qe": d10(row.queryEndPosition), "rs": d10(row.referenceStartPosition),
            "re": d10(row.referenceEndPosition), "qlen": d10(row.queryLength), "rlen": d10(row.referenceLength),
            "conf1000": int(round(float(row.confidence) * 1000)), "hit": pipe_common.hit_codes(row.cigarString),
            "pairs": [[int(p.reference.siteId), int(p.query.siteId)] for p in row.alignedPairs]}
    out = os.path.join(wd, f"rt{fileno}.xmap")
    args = pipeline.make_args(pipeline.arg_list(rp, qp, out, "best"))
    writer = XmapReader(XmapAlignmentPairWithDistanceParser(list(rmaps.values()), list(qmaps.values())))
    with open(out, "w") as f:
        writer.writeAlignments(f, AlignmentResults.create(rp, qp, rows), args)
    try:
        args.outputFile.close()
    except Exception:
        pass
    parsed = pipeline.parse_xmap(out)
    recs = [r for r in parsed["records"] if not r.get("malformed")]
    try:
        rb = pipe_common.read_back(out, rp, qp)
        rb_status = "ok"
    except Exception as e:
        rb, rb_status = None, "exc:" + type(e).__name__
    byq = {r["id"]: r for r in refs}
    byqq = {q["id"]: q for q in qrys}
    lines = []
    for kth, r in enumerate(recs, start=1):
        line = {"kind": "record", "ref": pipe_common.map_for_tla(byq.get(r["r"])),
                "qry": pipe_common.map_for_tla(byqq.get(r["q"])), "rec": pipe_common.rec_for_tla(r), "kth": kth,
                "tag": {"input": f"roundtrip-{fileno}", "mode": "synthetic", "file": "main"}}
        if rb is not None and kth <= len(rb):
            line["kind"] = "readback"
            line["rb"] = rb[kth - 1]
            if r["q"] in given:
                line["kind"] = "readbackg"
                line["given"] = given[r["q"]]
        lines.append(line)
    return [{"lines": lines, "n_cases": len(cases), "n_records": len(recs), "malformed": len(parsed["records"]) - len(recs),
             "readback": rb_status, "readback_n": len(rb) if rb is not None else -1, "header_ok": parsed["header_ok"]}]


def _job(a):
    return _one_file(*a)


def explore(ctx: Ctx, stride: int = 1) -> List[Dict]:
    """returns one summary per synthetic file: {"lines": Trace_Xmap lines, n_cases, n_records, readback...}"""
    import multiprocessing as mp
    space = batch.export_by_print("MC_Xmap", "Export_Xmap.cfg", ctx.workdir, workers=4)
    space = space[::stride]
    wd = os.path.join(ctx.workdir, "roundtrip")
    jobs = [(wd, space[i:i + PER_FILE], n) for n, i in enumerate(range(0, len(space), PER_FILE))]
    try:
        with mp.get_context("fork").Pool(min(12, len(jobs))) as pool:
            res = [x for part in pool.map(_job, jobs) for x in part]
    finally:
        shutil.rmtree(wd, ignore_errors=True)
    return res
