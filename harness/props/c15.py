"""C15 - conflict resolution only trims inside the overlap and leaves no shared label.

(B) lists of 2..10 segments produced from realistic label data by the REAL Aligner.getSegments over ladders of
    seed peaks (stretch, indels, repeats, both strands, several maxDistance values) go through the REAL
    AlignmentSegmentConflictResolver.
(C) Trace_Resolver: TLC evaluates the C15 clauses on every real result and replays the pairwise pass
    (chain order is a logged choice) for drift.
(A) the same Resolver module is model-checked inside AlignCore (see C01).
"""
from __future__ import annotations

import random
import threading
from typing import List

from lib import batch, gen, tlc
from lib.core import Ctx


def segment_lists(rng: random.Random, n: int, min_segments: int = 2):
    """n recorded cases (a case = one ladder input that gave >= 2 non-empty segments)"""
    out = []
    attempts = 0
    while len(out) < n and attempts < n * 20:
        attempts += 1
        c = gen.ladder_case(rng)
        rec = run_real(c)
        if rec is None or len(rec["ins"]) < min_segments:
            continue
        out.append(rec)
    return out


def run_real(c):
    p: gen.Params = c["params"]
    scale = 2 if p.dp == 0.5 else 1
    from lib import alignlib
    aligner, chainer, resolver = alignlib.shared_aligner(p)     # one object for all cases, as in the pipeline
    alignlib._CASE_NO[0] += 1
    ref, qry = gen.optical_maps(c["ref"], c["qry"], qlen=c["qlen"], qid=5 + 2 * alignlib._CASE_NO[0],
                                rid=4 + 2 * alignlib._CASE_NO[0])
    from src.correlation.peak import Peak
    segs = []
    for pk in c["peaks"]:
        segs.extend(aligner.getSegments(c["rev"], Peak(pk, 1.), qry, ref))
    nonempty = [s for s in segs if not s.empty]
    if len(nonempty) < 2 or len(segs) > 10:
        return None
    ident = {}
    ins = []
    for k, s in enumerate(segs, start=1):
        for j, pos in enumerate(s.positions, start=1):
            ident[id(pos)] = (k, j)
        ins.append({"peak": int(s.peak.position), "pos": [gen.pos_record(x, scale) for x in s.positions]})
    seg_index = {id(s): k for k, s in enumerate(segs, start=1)}
    chain = [seg_index[id(s)] for s in chainer.chain(list(segs))]
    status = "ok"
    obs = []
    try:
        out = resolver.resolveConflicts(list(segs)).segments
        for place, s in enumerate(out):
            where = [ident.get(id(x), (0, 0)) for x in s.positions]
            srcs = {w[0] for w in where}
            isrc = srcs.pop() if len(srcs) == 1 else 0
            sc = s.segmentScore * scale
            obs.append({"src": chain[place] if place < len(chain) else 0, "isrc": isrc,
                        "ix": [w[1] for w in where], "score": int(round(sc))})
    except Exception as e:  # no result exists
        status = "exc:" + type(e).__name__
    return {"ins": ins, "rev": c["rev"], "chain": chain, "obs": obs, "status": status,
            "params": p.as_dict(), "peaks": c["peaks"]}


def signature(rec, failed: List[str]) -> str:
    """structural description of a failing history (for known_findings.json)"""
    share = {"no_shared_reference_label", "no_shared_query_label", "segments_do_not_cross"}
    if failed and set(failed) <= share:
        # the offending segments are separated, in the returned chain, by a segment the pass emptied
        ne = [j for j, o in enumerate(rec["obs"]) if o["ix"]]
        pairs_of = {}
        for j in ne:
            o = rec["obs"][j]
            pairs_of[j] = [rec["ins"][o["isrc"] - 1]["pos"][i - 1] for i in o["ix"]
                           if rec["ins"][o["isrc"] - 1]["pos"][i - 1]["k"] == "P"]
        sign = -1 if rec["rev"] else 1
        adjacent_bad = False
        for a in ne:
            for b in ne:
                if a >= b:
                    continue
                bad = any(p["r"][0] == p2["r"][0] or p["q"][0] == p2["q"][0] or
                          (p["r"][0] - p2["r"][0]) * (p["q"][0] - p2["q"][0]) * sign < 0
                          for p in pairs_of[a] for p2 in pairs_of[b])
                if bad and not any(not rec["obs"][m]["ix"] for m in range(a + 1, b)):
                    adjacent_bad = True
        return "" if adjacent_bad else "offending_segments_separated_by_emptied_segment"
    return ""


REPLAY = ("Trace_Resolver", "Trace_Resolver.cfg", None, ("params", "peaks"))   # the stored segment list is judged as recorded

def run(ctx: Ctx):
    quick = ctx.tier == "quick"
    rng = random.Random(ctx.seed * 6007 + 15)
    ctx.rule = ("segment lists (2..10 segments, >= 2 non-empty) built by the real Aligner.getSegments from ladders of "
                "2..7 seed peaks (diagonals of individual label pairs +-0/300/800 bp) on generated references "
                "(25..60 labels, optional tandem repeats) and noisy / stretched / indel-containing queries, both "
                "strands, maxDistance in {500,1500,3000}, several score parameter vectors; resolved by the real "
                "AlignmentSegmentConflictResolver; plus lattice inputs that TLC's random walks of MC_AlignCore drove into "
                "rare resolver situations (Guided_AlignCore.cfg); judged by TLC (Trace_Resolver). non-trivial = distinct list whose "
                "real chain has >= 2 members that share or cross labels before resolution (a conflict exists)")
    ctx.assumptions = ["chain order is taken from the real chainer (logged choice); C14 decides the chainer",
                       "integer bp coordinates; scores scaled to integers (dp in {0.5,1,2})"]
    n = 8000 if quick else 150000
    records = gen.parallel(segment_lists, ctx.seed * 6007 + 15, n, chunk=250)
    # model-guided lists: lattice inputs that TLC's random walks of MC_AlignCore (larger constants) drove into the
    # resolver situations random inputs rarely reach; their segments are built and resolved by the real code as well
    from lib import alignlib
    guided = batch.export_by_print("MC_AlignCore", "Guided_AlignCore.cfg", ctx.workdir, workers=8,
                                   simulate="num=%d" % (1500 if quick else 40000), depth=200,
                                   extra=["-seed", str(ctx.seed + 15)], timeout=1800)
    n_guided = 0
    for inp in guided:
        rec = run_real({"ref": inp["ref"], "qry": inp["qry"], "qlen": inp["qlen"], "peaks": inp["peaks"],
                        "rev": inp["rev"], "params": alignlib.params_of(inp["par"])})
        if rec is not None:
            records.append(rec)
            n_guided += 1
    ctx.notes["model_guided_lists"] = n_guided
    for rec in records:
        ch = [c for c in rec["chain"] if rec["ins"][c - 1]["pos"]]
        if len(ch) >= 2:
            labs = [{(p["r"][0], p["q"][0]) for p in rec["ins"][c - 1]["pos"] if p["k"] == "P"} for c in ch]
            conflict = False
            for a in range(len(labs)):
                for b in range(a + 1, len(labs)):
                    ra = {x[0] for x in labs[a]}
                    qa = {x[1] for x in labs[a]}
                    if any(x[0] in ra or x[1] in qa for x in labs[b]):
                        conflict = True
            if conflict:
                ctx.nontrivial(repr((rec["ins"], rec["chain"])))
    verdicts, r = batch.validate("Trace_Resolver", "Trace_Resolver.cfg", ctx.workdir,
                                 [{k: v for k, v in rec.items() if k not in ("params", "peaks")} for rec in records])
    ctx.add_traces(len(records))
    ctx.states += r.distinct
    ctx.transitions += r.generated
    ctx.notes["trace_validation"] = {"states": r.distinct, "wall_s": round(r.wall_s, 1)}
    ctx.notes["resolver_outcomes_exercised_by_real_lists"] = dict(batch.KIND_COUNTS)
    ctx.notes["chains_of_3_or_more"] = sum(1 for rec in records if len([c for c in rec["chain"]
                                                                         if rec["ins"][c - 1]["pos"]]) >= 3)
    for tid, (failed, drift) in sorted(verdicts.items()):
        rec = records[tid]
        if failed:
            ctx.violation(rec, failed, signature(rec, failed),
                          what=f"{len(rec['ins'])} segments, chain={rec['chain']}, rev={rec['rev']}, "
                               f"peaks={rec['peaks']}, status={rec['status']}")
        elif drift:
            ctx.add_drift(1, {"chain": rec["chain"], "obs": rec["obs"], "peaks": rec["peaks"]})
    for s in records[:2]:
        ctx.sample({"peaks": s["peaks"], "rev": s["rev"], "chain": s["chain"], "obs": s["obs"],
                    "ins": [{"peak": i["peak"], "n_positions": len(i["pos"])} for i in s["ins"]]})
    ctx.notes["model_checking_of_this_module"] = "Resolver.tla is model-checked inside MC_AlignCore (check C01)"
