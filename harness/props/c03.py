"""C03 - HitEnum is a faithful run-length encoding of the aligned pairs.

(A) TLC: MC_Row - every valid matching on a label grid, both orientations; D1 deviation demonstrated separately.
(B) the same matchings exported by TLC -> real AlignmentResultRow.cigarString.
(C) Trace_Row: TLC parses the text, decodes it and compares with the pairs; Impl replay for drift.
Also: records produced end to end by the real pipeline (HitEnum column of the XMAP text).
"""
from __future__ import annotations

import random
import threading

from lib import batch, tlc
from lib.core import Ctx
from lib import repo  # noqa: F401


def make_row(pairs, rev):
    from src.alignment.alignment_position import AlignedPair, ScoredAlignedPair
    from src.alignment.alignment_results import AlignmentResultRow
    from src.alignment.segments import AlignmentSegment
    from src.correlation.optical_map import PositionWithSiteId
    from src.correlation.peak import Peak
    pos = [ScoredAlignedPair(AlignedPair(PositionWithSiteId(r, 1000 * r), PositionWithSiteId(q, 1000 * q), 0), 1000.)
           for r, q in pairs]
    # split into segments now and then: cigarString must not depend on segment boundaries (halves; a first or a last
    # segment of exactly one pair; three segments)
    how = (len(pos) + pairs[0][0]) % 5
    cuts = []
    if len(pos) >= 4 and how == 0:
        cuts = [len(pos) // 2]
    elif len(pos) >= 2 and how == 1:
        cuts = [1]
    elif len(pos) >= 2 and how == 2:
        cuts = [len(pos) - 1]
    elif len(pos) >= 5 and how == 3:
        cuts = [1, len(pos) // 2 + 1]
    bounds = [0] + cuts + [len(pos)]
    segs = [AlignmentSegment(pos[a:b], 1000. * (b - a), Peak(0, 1.), pos) for a, b in zip(bounds, bounds[1:])]
    return AlignmentResultRow(segs, reverseStrand=rev)


def run_real(pairs, rev):
    s = make_row(pairs, rev).cigarString
    return [ord(c) for c in s]


def random_matching(rng, max_pairs, max_gap):
    n = rng.randint(1, max_pairs)
    rev = rng.random() < 0.5
    style = rng.random()
    r, q = rng.randint(1, 50), rng.randint(1, 50)
    rs, qs = [r], [q]
    for _ in range(n - 1):
        if style < 0.5:
            gr = 1 if rng.random() < 0.8 else rng.randint(2, max_gap)
            gq = 1 if rng.random() < 0.8 else rng.randint(2, max_gap)
        else:
            gr, gq = rng.randint(1, max_gap), rng.randint(1, max_gap)
        r += gr
        q += gq
        rs.append(r)
        qs.append(q)
    if rev:
        qs = qs[::-1]
    return [[a, b] for a, b in zip(rs, qs)], rev


def _rerun(case):
    if "pairs" not in case:          # a record of an end-to-end run: judged as stored
        return None
    return {"pairs": case["pairs"], "rev": case["rev"], "hit": run_real(case["pairs"], case["rev"])}


REPLAY = ("Trace_Row", "Trace_Row.cfg", lambda c: _rerun(c) or {"pairs": c["rec"]["pairs"], "rev": c["rec"]["ori"] == "-",
                                                                "hit": c["rec"]["hit"]}, ())

def run(ctx: Ctx):
    quick = ctx.tier == "quick"
    rng = random.Random(ctx.seed * 104729 + 3)
    ctx.rule = ("(i) every valid matching with >= 1 pair on a 7x7 (quick) / 8x8 (thorough) label grid, both "
                "orientations, enumerated in TLA+ (Matchings) and exported by TLC; (ii) random matchings of up to "
                "120/300 pairs with gaps up to 30 on either map; each through the real "
                "AlignmentResultRow.cigarString (rows split into one or two segments) and judged by TLC "
                "(Trace_Row: parse text, Decode, clause set; Impl replay). non-trivial = distinct matching with at "
                "least one skipped label on either map, or exactly one pair")
    ctx.assumptions = ["C03 quantifies over valid matchings; whether a reported record is a valid matching is C01",
                       "counts above 100000 are outside the decoder's range (never produced: label numbers < 10^5)"]
    mc_res = {}

    def mc():
        try:
            mc_res["r"] = tlc.run_tlc("MC_Row", "MC_Row.cfg" if quick else "MC_Row_thorough.cfg", ctx.workdir, workers=4)
            mc_res["d1"] = tlc.run_tlc("MC_Row", "MC_Row_d1.cfg", ctx.workdir, workers=1, allow_violation=True)
        except Exception as e:
            mc_res["err"] = e

    th = threading.Thread(target=mc)
    th.start()
    space = batch.export_space("MC_Row", "Export_Row.cfg" if quick else "Export_Row_thorough.cfg", ctx.workdir)
    cases = [(c["pairs"], c["rev"]) for c in space]
    n_rand = 800 if quick else 20000
    for _ in range(n_rand):
        cases.append(random_matching(rng, rng.choice([8, 20, 60]) if quick else rng.choice([10, 40, 300]), rng.choice([3, 30])))
    records = []
    for pairs, rev in cases:
        try:
            hit = run_real(pairs, rev)
        except Exception as e:  # an exception while encoding a valid matching: the string does not exist
            hit = [ord(c) for c in "!EXC"]
        records.append({"pairs": pairs, "rev": rev, "hit": hit})
        gaps = any(b[0] - a[0] > 1 or abs(b[1] - a[1]) > 1 for a, b in zip(pairs, pairs[1:]))
        if gaps or len(pairs) == 1:
            ctx.nontrivial((tuple(map(tuple, pairs)), rev))
    verdicts, r = batch.validate("Trace_Row", "Trace_Row.cfg", ctx.workdir, records)
    ctx.add_traces(len(records))
    ctx.notes["trace_validation"] = {"states": r.distinct, "wall_s": round(r.wall_s, 1),
                                     "from_tlc_exported_space": len(space), "random": n_rand}
    for tid, (failed, drift) in sorted(verdicts.items()):
        rec = records[tid]
        if failed:
            sig = "one_pair_record_empty_hitenum" if (len(rec["pairs"]) == 1 and rec["hit"] == []) else ""
            ctx.violation(rec, failed, sig, what=f"pairs={rec['pairs'][:6]} rev={rec['rev']} "
                                                 f"hit={''.join(map(chr, rec['hit']))[:40]!r}")
        elif drift:
            ctx.add_drift(1, rec)
    ex = [x for x in records if len(x["pairs"]) >= 3 and x["rev"]][:1] + [x for x in records if len(x["pairs"]) == 1][:1]
    for s in ex + records[-1:]:
        ctx.sample({"pairs": s["pairs"][:12], "rev": s["rev"], "hit": "".join(map(chr, s["hit"]))[:60]})
    # ---- every record produced end to end (HitEnum column of the XMAP text), Trace_Xmap / C03 clauses
    from props import pipe_common
    res = pipe_common.explore(ctx, 16 if quick else 300, n_qry=12, salt=3,
                              kinds=["dropped", "indel", "stretched", "split", "noisy", "partial", "mirror", "tiny",
                                     "dropped", "indel", "exact", "chimeric"])
    from props import roundtrip
    rt = roundtrip.explore(ctx, stride=5 if quick else 1)      # MC_Xmap's record space through the real writer
    lines, out, r2 = pipe_common.validate_records(ctx, res + [{"lines": x["lines"]} for x in rt], "C03")
    ctx.notes["pipeline"] = {"inputs": len(res), "records": len(lines),
                             "records_with_gaps": sum(1 for ln in lines if any(c in (68, 73) for c in ln["rec"]["hit"])),
                             "one_pair_records": sum(1 for ln in lines if len(ln["rec"]["pairs"]) == 1)}
    for ln in lines:
        if any(c in (68, 73) for c in ln["rec"]["hit"]):
            ctx.nontrivial(("file", ln["tag"]["input"], ln["tag"]["mode"], ln["tag"]["file"], ln["rec"]["q"]))
    for ln, mine, drift, allf in out:
        if mine:
            ctx.violation(ln, mine, "", what=f"input={ln['tag']['input']} mode={ln['tag']['mode']} "
                                             f"file={ln['tag']['file']} query={ln['rec']['q']} "
                                             f"hit={''.join(map(chr, ln['rec']['hit']))[:40]!r}")
        elif "hitenum_differs_from_spec" in drift and not allf:
            ctx.add_drift(1, {"tag": ln["tag"]})
    th.join()
    if "err" in mc_res:
        raise mc_res["err"]
    ctx.add_model("MC_Row", mc_res["r"])
    ctx.exhaustive = True
    if not mc_res["d1"].invariant_violated:
        raise tlc.MachineryError("MC_Row_d1: the D1 deviation (lone run not emitted) no longer violates C03 in the model")
    ctx.notes["named_deviation_D1"] = "LastRunNeedsTwoOps=TRUE violates Inv_C03 in the model (1-pair matching -> empty string)"
