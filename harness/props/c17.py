"""C17 - CMAP reading returns every labelled molecule exactly; trimming keeps geometry.

(A) TLC: MC_Cmap - every small file (<= 2 molecules, 0..2 labels each, every row order, every id filter).
(B) the same row lists printed by TLC and random larger ones, rendered by the harness as CMAP TEXT (one decimal,
    shuffled rows, optional extra columns) and read by the REAL CmapReader; OpticalMap.trim on the maps read.
(C) Trace_Cmap: TLC evaluates the C17 clauses on every real result and replays the row-level model (drift).
"""
from __future__ import annotations

import io
import os
import random
import threading

from lib import batch, pipeline, tlc
from lib.core import Ctx
from lib import repo  # noqa: F401


def render(rows, extra_columns: bool) -> str:
    out = ["# CMAP File Version:\t0.1", f"# Label Channels:\t{max([1] + [r['chan'] for r in rows])}"]
    if extra_columns:
        out.append("#h CMapId\tContigLength\tNumSites\tSiteID\tLabelChannel\tPosition\tStdDev\tCoverage\tOccurrence")
        out.append("#f int\tfloat\tint\tint\tint\tfloat\tfloat\tfloat\tfloat")
    else:
        out.append("#h CMapId\tContigLength\tNumSites\tSiteID\tLabelChannel\tPosition")
        out.append("#f int\tfloat\tint\tint\tint\tfloat")
    ends = {r["cid"]: r["pos"] for r in rows if r["chan"] == 0}
    for k, r in enumerate(rows, start=1):
        ln = f"{r['cid']}\t{pipeline.fmt1(ends.get(r['cid'], 0))}\t9\t{k}\t{r['chan']}\t{pipeline.fmt1(r['pos'])}"
        out.append(ln + ("\t0.0\t1.0\t1.0" if extra_columns else ""))
    return "\n".join(out) + "\n"


_READER = {}


def d10(v) -> int:
    return int(round(float(v) * 10))


def run_read(rows, flt, extra_columns, as_queries):
    from src.parsers.cmap_reader import CmapReader
    text = render(rows, extra_columns)
    f = io.StringIO(text)
    reader = _READER.setdefault("r", CmapReader())     # one reader object for all files, as a long-lived tool would
    maps = reader.readQueries(f, list(flt)) if as_queries else reader.readReferences(f, list(flt))
    return maps


def random_rows(rng: random.Random):
    rows = []
    ids = rng.sample(range(1, 60), rng.randint(1, 6))
    if rng.random() < 0.15:       # ids that need more than 32 bits (CMapId is an int64 column)
        ids = rng.sample([7, 7 + 2 ** 32, 2 ** 31 + 11, 2 ** 31, 2 ** 40 + 3, 123456, 2 ** 32 - 1], rng.randint(2, 5))
    elif rng.random() < 0.12:     # ids no double can hold (neighbours collide when an id passes through a float)
        ids = rng.sample([2 ** 53 + 1, 2 ** 53 + 2, 2 ** 53 + 3, 2 ** 60 + 7, 5, 2 ** 62 + 1], rng.randint(2, 5))
    two_colours = rng.random() < 0.2      # "# Label Channels: 2": label rows of colour 1 and 2 (0 stays the end marker)
    for c in ids:
        n = rng.choice([0, 1, 2, 5, 12, 30])
        x = rng.choice([0, 0, rng.randint(0, 3000)])
        chan_of_molecule = rng.choice([0, 2, 2])      # 0: colours mixed within the molecule; 2: all of its labels in colour 2
        for _ in range(n):
            rows.append({"cid": c, "chan": (chan_of_molecule or rng.choice([1, 2])) if two_colours else 1, "pos": x})
            x += rng.choice([0, 1, 7, rng.randint(10, 200000)])
        # the end marker: often within the last (fractional) base pair after the last label, or exactly on it
        back = rng.choice([0, 0, 1, 7]) if n else 0
        rows.append({"cid": c, "chan": 0, "pos": rng.choice([x, x, max(x - back, 0) + rng.choice([0, 3, 9]),
                                                           x + rng.randint(0, 50000)])})
    rng.shuffle(rows)
    flt = [] if rng.random() < 0.4 else rng.sample(ids + [99], rng.randint(1, len(ids)))
    return {"rows": rows, "filter": sorted(set(flt))}


def compress_ids(rec):
    """TLC integers are 32-bit: when a molecule id does not fit, every id of the record (rows, filter, observed maps) is
    replaced by its rank among all ids that occur in it (order and equality of ids are all C17 talks about)"""
    ids = {r["cid"] for r in rec["rows"]} | set(rec["filter"]) | {o["id"] for o in rec["obs"]}
    if all(-2 ** 31 < i < 2 ** 31 for i in ids):
        return rec
    rank = {v: k + 1 for k, v in enumerate(sorted(ids))}
    out = dict(rec)
    out["rows"] = [dict(r, cid=rank[r["cid"]]) for r in rec["rows"]]
    out["filter"] = sorted(rank[i] for i in rec["filter"])
    out["obs"] = [dict(o, id=rank[o["id"]]) for o in rec["obs"]]
    out["ids_compressed"] = True
    return out


def run(ctx: Ctx):
    quick = ctx.tier == "quick"
    rng = random.Random(ctx.seed * 2741 + 17)
    ctx.rule = ("row lists MC_Cmap enumerates (<=2 molecules, 0-2 labels, all row orders and filters; printed by TLC) and "
                "random files of 1-6 molecules with 0-30 labels (coincident labels, one-decimal coordinates, labels inside "
                "the last fractional base pair before a non-integral end marker, shuffled "
                "rows, with/without extra columns, filters incl. absent ids), rendered as CMAP text and read by the real "
                "CmapReader (readQueries / readReferences); every map read is trimmed once and twice. non-trivial = "
                "distinct file with >= 2 molecules or a molecule without labels or an id filter")
    ctx.assumptions = ["every molecule has exactly one end-marker row (LabelChannel 0), as in the CMAP format",
                       "the text layer (pandas.read_csv) is covered by conformance only"]
    mc_res = {}

    def mc():
        try:
            mc_res["r"] = tlc.run_tlc("MC_Cmap", "MC_Cmap.cfg", ctx.workdir, workers=6, heap_gb=8)
        except Exception as e:
            mc_res["err"] = e

    th = threading.Thread(target=mc)
    th.start()
    space = batch.export_by_print("MC_Cmap", "Export_Cmap.cfg", ctx.workdir, workers=4)
    # every 150th (quick) / 8th (thorough) exported file is rendered as text and read by the real reader; the whole space
    # is model-checked by MC_Cmap (the real reader costs ~2 ms per file through pandas)
    space = space[::150] if quick else space[::8]
    cases = [{"rows": c["rows"], "filter": sorted(c["filter"])} for c in space]
    cases += [random_rows(rng) for _ in range(1500 if quick else 40000)]
    records = []
    for k, c in enumerate(cases):
        rec = {"kind": "read", "rows": c["rows"], "filter": c["filter"], "obs": [], "status": "ok"}
        try:
            maps = run_read(c["rows"], c["filter"], k % 2 == 0, k % 3 == 0)
            rec["obs"] = [{"id": int(m.moleculeId), "len": int(m.length), "x": [d10(p) for p in m.positions]} for m in maps]
            for m in maps[:2]:
                t1 = m.trim()
                t2 = t1.trim()
                records.append({"kind": "trim", "m": {"len": int(m.length), "x": [d10(p) for p in m.positions]},
                                "tr": {"len": d10(t1.length), "x": [d10(p) for p in t1.positions]},
                                "tr2": {"len": d10(t2.length), "x": [d10(p) for p in t2.positions]}})
        except Exception as e:
            rec["status"] = "exc:" + type(e).__name__
        records.append(rec)
        ids = {r["cid"] for r in c["rows"]}
        if len(ids) >= 2 or c["filter"] or any(not [r for r in c["rows"] if r["cid"] == i and r["chan"]] for i in ids):
            ctx.nontrivial(repr(c))
    records = [compress_ids(x) if x["kind"] == "read" else x for x in records]
    verdicts, r = batch.validate("Trace_Cmap", "Trace_Cmap.cfg", ctx.workdir,
                                 [{k: v for k, v in x.items() if k != "ids_compressed"} for x in records])
    ctx.add_traces(len(records))
    ctx.notes["trace_validation"] = {"states": r.distinct, "wall_s": round(r.wall_s, 1), "from_tlc_exported_space": len(space)}
    for tid, (failed, drift) in sorted(verdicts.items()):
        rec = records[tid]
        if failed:
            ctx.violation(rec, failed, "", what=str({k: v for k, v in rec.items() if k != "rows"})[:300])
        elif drift:
            ctx.add_drift(1, rec)
    ctx.sample(next(x for x in reversed(records) if x["kind"] == "read"))
    ctx.sample(next(x for x in records if x["kind"] == "trim"))
    th.join()
    if "err" in mc_res:
        raise mc_res["err"]
    ctx.add_model("MC_Cmap", mc_res["r"])
    ctx.exhaustive = True
