"""C10 - a query's record is independent of the other molecules and of file order.

(A) TLC: MC_Pool Inv_C10 - whatever subset of tasks is present and in whatever order, with the aligner and its
    counter shared between tasks, the yielded record of a task (without source tags) is a function of the task.
(B/C) variant runs of one generated input through the real pipeline: queries removed / reordered, CMAP rows
    shuffled, references reordered, -qId/-rId selection vs physically restricted files; TLC (Trace_SameFiles)
    compares the records (all fields; XmapEntryID renumbered only where the set of queries differs).
"""
from __future__ import annotations

import multiprocessing as mp
import os
import random
import shutil

from lib import batch, pipecases, pipeline, tlc
from lib.core import Ctx
from props import pipe_common
from props.c07 import without_ids


def files3(res):
    out = {}
    for name, key in (("main", "main"), ("_1", "f1"), ("_2", "f2")):
        p = res["files"].get(name)
        out[key] = [pipe_common.rec_for_tla(r) for r in p["records"] if not r.get("malformed")] if p else []
    return out


def restrict(f3, keep):
    return {k: without_ids(v, {r["q"] for r in v if r["q"] not in keep}) for k, v in f3.items()}


def one_input(args):
    seed, idx, workroot = args
    rng = random.Random(seed * 92821 + idx)
    inp = pipecases.make_input(rng, n_refs=3, n_qry=9 + (idx % 3 == 0), ref_labels=(60, 130), small_ids=(idx % 2 == 1),
                               kinds=["split", "noisy", "toolong", "split", "mirror", "dropped", "chimeric", "partial", "exact", "junk"][:9 + (idx % 3 == 0)] if idx % 3 == 0 else
                                     ["split", "noisy", "split", "mirror", "dropped", "chimeric", "partial", "exact", "junk"],
                               short_contigs=1)    # + a contig shorter than most molecules, with a molecule of its own
    dup = None
    if idx % 2 == 0:
        # a second copy of the first reference under the largest id (a contig listed twice / a haplotype copy): every
        # molecule of that reference then has two equally good placements, and the lower id has to win whatever the
        # order in which the references are listed in the file or after -rId
        src = inp["refs"][0]
        dup = dict(src, id=max(r["id"] for r in inp["refs"]) + 3, x=list(src["x"]), bp=list(src["bp"]))
        inp["refs"].append(dup)
    extra = pipe_common.PARAM_VECTORS[idx % len(pipe_common.PARAM_VECTORS)]
    mode = ["all", "best", "joined", "separate", "best"][idx % 5]
    wd = os.path.join(workroot, f"c10-{os.getpid()}-{idx}")
    lines, tags = [], []
    # every fourth input: query ids beyond 2^53 (consecutive ones: neighbours that a double cannot tell apart)
    pipeline.QID_BASE = 2 ** 53 if idx % 4 == 3 else 0
    try:
        qids = [q["id"] for q in inp["qrys"]]
        rids = [r["id"] for r in inp["refs"]]
        rp, qp = pipecases.write_input(wd, inp, "full")
        full = pipecases.run_once(wd, rp, qp, "full", mode, extra)
        status = {"full": full["status"]}
        f_full = files3(full)
        # V1: two queries removed, the rest reordered
        keep = qids[:]
        rng.shuffle(keep)
        if idx % 2 == 1:      # remove the first query of the file (with small ids: the one whose id equals a reference id)
            keep = [q for q in keep if q != qids[0]][:-1]
        else:
            keep = keep[:-2]
        # every third input holds a molecule longer than every reference (no seed at all): it is one of the removed ones
        toolong = [q["id"] for q in inp["qrys"] if q["kind"] == "toolong"]
        if toolong and toolong[0] in keep:
            keep = [q for q in keep if q != toolong[0]]
        rp1, qp1 = pipecases.write_input(wd, inp, "v1", qsel=set(keep), qorder=keep)
        v1 = pipecases.run_once(wd, rp1, qp1, "v1", mode, extra)
        status["removed_reordered"] = v1["status"]
        lines.append({"with": restrict(f_full, set(keep)), "without": restrict(files3(v1), set(keep))})
        tags.append({"input": idx, "mode": mode, "variant": "queries removed and reordered", "kept": keep})
        # V2: rows of both CMAP files shuffled
        rp2, qp2 = pipecases.write_input(wd, inp, "v2", shuffle_rng=rng)
        v2 = pipecases.run_once(wd, rp2, qp2, "v2", mode, extra)
        status["rows_shuffled"] = v2["status"]
        lines.append({"with": f_full, "without": files3(v2)})
        tags.append({"input": idx, "mode": mode, "variant": "CMAP rows shuffled"})
        # V3: references listed in another order
        ro = rids[:]
        rng.shuffle(ro)
        rp3, qp3 = pipecases.write_input(wd, inp, "v3", rorder=ro)
        v3 = pipecases.run_once(wd, rp3, qp3, "v3", mode, extra)
        status["refs_reordered"] = v3["status"]
        lines.append({"with": f_full, "without": files3(v3)})
        tags.append({"input": idx, "mode": mode, "variant": "references reordered", "order": ro})
        # V4/V5: -qId/-rId vs physically restricted files (XmapEntryID included)
        qsel = sorted(rng.sample(qids, 4))
        rsel = sorted(rng.sample(rids, 2))
        if dup is not None:
            rsel = [dup["id"], inp["refs"][0]["id"]]       # both copies, given in descending order on the command line
        else:
            rng.shuffle(rsel)                              # the order of the ids after -rId must not matter
        v4 = pipecases.run_once(wd, rp, qp, "v4", mode, extra, qids=qsel, rids=rsel)
        rp5, qp5 = pipecases.write_input(wd, inp, "v5", qsel=set(qsel), rsel=set(rsel))
        v5 = pipecases.run_once(wd, rp5, qp5, "v5", mode, extra)
        status["qId_rId"] = v4["status"]
        status["restricted_files"] = v5["status"]
        lines.append({"with": files3(v4), "without": files3(v5)})
        tags.append({"input": idx, "mode": mode, "variant": "-qId/-rId vs restricted files", "qsel": qsel, "rsel": rsel})
        # V6: one query all alone (a plain one and the last one): runs in which no molecule has a second-pass alignment
        solos = [qids[0], qids[1], qids[-1]]     # a split molecule (joinable), a plain one, the short contig's
        if pipeline.QID_BASE:
            solos += [qids[2], qids[3]]         # neighbours whose ids 2^53+3 and 2^53+4 are the same double
        for solo in solos:
            rp6, qp6 = pipecases.write_input(wd, inp, f"v6_{solo}", qsel={solo})
            v6 = pipecases.run_once(wd, rp6, qp6, f"v6_{solo}", mode, extra)
            status[f"alone_{solo}"] = v6["status"]
            lines.append({"with": restrict(f_full, {solo}), "without": restrict(files3(v6), {solo})})
            tags.append({"input": idx, "mode": mode, "variant": "one query alone", "query": solo})
    finally:
        pipeline.QID_BASE = 0
        shutil.rmtree(wd, ignore_errors=True)
    return {"lines": lines, "tags": tags, "status": status, "idx": idx}


def run(ctx: Ctx):
    quick = ctx.tier == "quick"
    ctx.rule = ("generated inputs (3 references, 9 queries of all kinds; every fourth input with consecutive query ids beyond 2^53) in one of the four modes with one of 8 parameter "
                "vectors; per input 8 runs: full, two queries removed and the rest reordered, rows of both CMAP files "
                "shuffled, references reordered, -qId/-rId selection, physically restricted files, three single-query runs (one of them the molecule of a contig that is shorter than the other molecules); TLC compares the "
                "records of the queries present in both runs. non-trivial = distinct (input, variant) comparison in "
                "which at least one record exists")
    ctx.assumptions = ["exact ties between references occur only through the deliberate duplicate of the first reference "
                       "(every second input); the reader returns maps in ascending id order, so the lower id wins whatever "
                       "the order in the file or after -rId"]
    mc = tlc.run_tlc("MC_Pool", "MC_Pool.cfg" if quick else "MC_Pool_thorough.cfg", ctx.workdir, workers=6, heap_gb=16)
    ctx.add_model("MC_Pool", mc)
    ctx.exhaustive = True
    n = 14 if quick else 160
    with mp.get_context("fork").Pool(min(14, n)) as pool:
        results = pool.map(one_input, [(ctx.seed * 29 + 10, i, ctx.workdir) for i in range(n)])
    lines, tags = [], []
    for r in results:
        for k, st in r["status"].items():
            if st != "ok":
                raise tlc.MachineryError(f"run aborted in C10 exploration (C07 decides aborts): input {r['idx']} {k} {st}")
        lines += r["lines"]
        tags += r["tags"]
    verdicts, tr = batch.validate("Trace_SameFiles", "Trace_SameFiles.cfg", ctx.workdir, lines)
    ctx.add_traces(len(lines))
    for ln, tg in zip(lines, tags):
        if ln["with"]["main"] or ln["with"]["f1"]:
            ctx.nontrivial((tg["input"], tg["variant"]))
    for tid, (failed, drift) in sorted(verdicts.items()):
        if failed:
            ctx.violation({"tag": tags[tid], "line": lines[tid]}, failed, "", what=f"{tags[tid]}")
    ctx.sample({"tag": tags[0], "with_main": [{k: r[k] for k in ("id", "q", "r", "ori", "conf")} for r in lines[0]["with"]["main"]][:4],
                "without_main": [{k: r[k] for k in ("id", "q", "r", "ori", "conf")} for r in lines[0]["without"]["main"]][:4]})
    ctx.sample({"tag": tags[3]})
