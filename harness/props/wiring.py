"""Command-line option -> component field wiring (Wiring.tla), part of C04: "the values used are the ones given on the
command line". Random subsets of options with sentinel values go through the REAL Args.parse and
WorkflowCoordinatorFactory.create; the fields are read off the objects that were built (tolerantly: a field that cannot
be found is reported as drift, not as a violation) and judged by TLC (Trace_Wiring)."""
from __future__ import annotations

import os
import random
from typing import Dict, List

from lib import batch, pipecases, pipeline, tlc
from lib.core import Ctx

FLOATS = {"dp", "sj", "pt"}
PATHS = {
    "primaryGenerator_resolution": "primaryGenerator.resolution",
    "primaryGenerator_blurRadius": "primaryGenerator.blurRadius",
    "secondaryGenerator_resolution": "secondaryGenerator.resolution",
    "secondaryGenerator_blurRadius": "secondaryGenerator.blurRadius",
    "peaksSelector_count": "peaksSelector.count",
    "scorer_perfectMatchScore": "aligner.scorer.perfectMatchScore",
    "scorer_distancePenaltyMultiplier": "aligner.scorer.distancePenaltyMultiplier",
    "scorer_unmatchedPenalty": "aligner.scorer.unmatchedPenalty",
    "segmentsFactory_minScore": "aligner.segmentsFactory.minScore",
    "segmentsFactory_breakSegmentThreshold": "aligner.segmentsFactory.breakSegmentThreshold",
    "engine_maxDistance": "aligner.alignmentEngine.maxDistance",
    "sequentialityScorer_segmentJoinMultiplier":
        "aligner.segmentConflictResolver.segmentChainer.sequentialityScorer.segmentJoinMultiplier",
    "sequentialityScorer_sequentialityScore":
        "aligner.segmentConflictResolver.segmentChainer.sequentialityScorer.sequentialityScore",
    "run_minPeakDistance": "args.minPeakDistance",
    "run_secondaryMargin": "args.secondaryMargin",
    "run_peakHeightThreshold": "args.peakHeightThreshold",
    "run_maxDifference": "args.maxDifference",
}
FLOAT_FIELDS = {"scorer_distancePenaltyMultiplier", "sequentialityScorer_segmentJoinMultiplier", "run_peakHeightThreshold"}
UNOBSERVED = -999999999
OPTIONS = ["r1", "b1", "r2", "b2", "p", "md", "ma", "pt", "d", "sp", "dp", "su", "ms", "bs", "diff", "sj", "ss"]


def random_cli(rng: random.Random) -> Dict[str, int]:
    given = [o for o in OPTIONS if rng.random() < 0.45]
    cli = {}
    used = set()
    for o in given:
        while True:
            if o in FLOATS:
                v = rng.choice([250, 500, 750, 1250, 1500, 2000, 3500, 31000, 19500])
            elif o == "su":
                v = -rng.choice([1, 3, 60, 110, 333, 777])
            elif o == "ss":
                v = rng.choice([0, 1, 2])
            else:
                v = rng.choice([2, 5, 9, 13, 37, 41, 640, 905, 1111, 2222, 4321, 50505])
            if v not in used or o == "ss":
                break
        used.add(v)
        cli[o] = v
    return cli


def observe(cli: Dict[str, int], rp: str, qp: str, out: str) -> Dict[str, int]:
    from src.args import Args
    from src.extensions.dispatcher import Dispatcher
    from src.parsers.xmap_reader import XmapReader
    from src.workflow_coordinator_factory import WorkflowCoordinatorFactory
    argv = ["-r", rp, "-q", qp, "-o", out, "-c", "1", "-pb"]
    for o, v in cli.items():
        argv += ["-" + o, str(v / 1000.) if o in FLOATS else str(v)]
    args = Args.parse(argv)
    try:
        coordinator = WorkflowCoordinatorFactory(args, Dispatcher([]), XmapReader()).create()
    finally:
        for f in (args.referenceFile, args.queryFile, args.outputFile):
            try:
                f.close()
            except Exception:
                pass
    obs = {}
    for field, path in PATHS.items():
        o = coordinator
        try:
            for part in path.split("."):
                o = getattr(o, part)
            w = float(o) * (1000 if field in FLOAT_FIELDS else 1)
            obs[field] = int(round(w)) if abs(w - round(w)) < 1e-6 else UNOBSERVED + 1
        except Exception:
            obs[field] = UNOBSERVED
    return obs


def explore(ctx: Ctx, n: int, rng: random.Random) -> None:
    mc = tlc.run_tlc("MC_Wiring", "MC_Wiring.cfg", ctx.workdir, workers=4)
    ctx.add_model("MC_Wiring", mc)
    wd = os.path.join(ctx.workdir, "wiring")
    inp = pipecases.make_input(random.Random(5), n_refs=1, n_qry=1, kinds=["exact"])
    rp, qp = pipecases.write_input(wd, inp, "w")
    lines: List[Dict] = []
    for _ in range(n):
        cli = random_cli(rng)
        lines.append({"cli": cli, "obs": observe(cli, rp, qp, os.path.join(wd, "w.xmap"))})
    verdicts, r = batch.validate("Trace_Wiring", "Trace_Wiring.cfg", ctx.workdir, lines, name="wiring.ndjson")
    ctx.add_traces(len(lines))
    ctx.notes["wiring"] = {"configurations": len(lines), "options_given_in_total": sum(len(x["cli"]) for x in lines)}
    for ln in lines:
        if len(ln["cli"]) >= 2:
            ctx.nontrivial(("wiring", tuple(sorted(ln["cli"].items()))))
    for tid, (failed, drift) in sorted(verdicts.items()):
        if failed:
            ctx.violation(lines[tid], ["C04:" + c for c in failed], "", what=f"cli={lines[tid]['cli']}")
        elif drift:
            ctx.add_drift(1, {"cli": lines[tid]["cli"], "drift": drift})
