"""C12 - pairing along a seed diagonal partitions labels and pairs nearest neighbours.

(A) TLC: MC_Pairing, every small geometry (ties, coincident labels, labels exactly at maxD, empty windows,
    fragments with label offsets, both strands).
(B) the same inputs, printed by TLC, through the REAL AlignerEngine.align; plus random realistic geometries.
(C) Trace_Pairing: TLC evaluates the C12 clauses on every real result and replays the Impl stages (drift).
"""
from __future__ import annotations

import random
import threading

from lib import batch, tlc
from lib.core import Ctx
from lib import repo  # noqa: F401


_ENGINES = {}     # one AlignerEngine per maxDistance for all cases: the pipeline keeps one engine per process
_CASE = [0]


def run_real(case, den=1):
    from src.alignment.aligner import AlignerEngine
    from src.alignment.alignment_position import AlignedPair, NotAlignedReferencePosition, NotAlignedQueryPosition
    from src.correlation.optical_map import OpticalMap

    def f(x):
        return x / den if den != 1 else x

    _CASE[0] += 1      # every case has its own map ids (ids identify maps within a run)
    ref = OpticalMap(4 + 2 * _CASE[0], f(max(case["ref"] + [0]) + 1), [f(x) for x in case["ref"]])
    qry = OpticalMap(5 + 2 * _CASE[0], f(case["qlen"] - 1) + 1, [f(x) for x in case["qry"]], shift=case["shift"])
    # length is used only as (length - 1) - x on the reverse strand: keep (qlen-1)/den exact
    eng = _ENGINES.setdefault(f(case["maxD"]), AlignerEngine(f(case["maxD"])))
    res = eng.align(ref, qry, f(case["start"]), f(case["end"]), case["rev"])
    obs = []

    def g(v):
        w = v * den
        iw = int(round(w))
        return iw if abs(w - iw) < 1e-6 else int(round(w * 1000)) + 10 ** 8  # non-representable: flagged by clauses

    for p in res:
        if isinstance(p, AlignedPair):
            obs.append({"k": "P", "r": [p.reference.siteId, g(p.reference.position)],
                        "q": [p.query.siteId, g(p.query.position)], "sh": g(p.queryShift)})
        elif isinstance(p, NotAlignedReferencePosition):
            obs.append({"k": "R", "r": [p.reference.siteId, g(p.reference.position)], "q": [0, 0], "sh": 0})
        elif isinstance(p, NotAlignedQueryPosition):
            obs.append({"k": "Q", "r": [0, 0], "q": [p.query.siteId, g(p.query.position)], "sh": 0})
        else:
            obs.append({"k": "?", "r": [0, 0], "q": [0, 0], "sh": 0})
    return obs


def random_case(rng: random.Random):
    """realistic label geometry (bp), window of <= ~25 labels"""
    nref = rng.randint(8, 40)
    x = rng.randint(0, 5000)
    ref = []
    for _ in range(nref):
        ref.append(x)
        x += rng.choice([0, 300, 700, 1500]) if rng.random() < 0.15 else int(rng.expovariate(1 / 6000.)) + 300
    w0 = rng.randint(0, max(0, nref - 6))
    w1 = min(nref, w0 + rng.randint(3, 18))
    true_off = ref[w0]
    q = []
    for xr in ref[w0:w1]:
        if rng.random() < 0.12:
            continue
        q.append(xr - true_off + int(rng.gauss(0, 250)))
        if rng.random() < 0.1:
            q.append(q[-1] + rng.randint(0, 900))
    if not q:
        q = [0]
    q = sorted(v - min(q) for v in q)
    whole_len = q[-1] + 1
    shift = 0
    if rng.random() < 0.3 and len(q) > 3:       # a fragment: slice of the whole query
        a = rng.randint(1, len(q) - 2)
        shift = a
        q = q[a:]
    rev = rng.random() < 0.5
    if rev:  # store the query so that its mirrored coordinates match the reference window
        q = sorted((whole_len - 1) - v for v in q)
    maxd = rng.choice([500, 1500, 3000, 1500, 0])
    start = true_off + rng.choice([0, 0, int(rng.gauss(0, 400)), maxd, -maxd, rng.randint(-3000, 3000)])
    end = start + whole_len
    return {"ref": ref, "qry": q, "qlen": whole_len, "shift": shift, "start": start, "end": end, "maxD": maxd, "rev": rev}


def _rerun(case):
    return {"in": case["in"], "obs": run_real(case["in"], 1)}


REPLAY = ("Trace_Pairing", "Trace_Pairing.cfg", _rerun, ())

def run(ctx: Ctx):
    quick = ctx.tier == "quick"
    rng = random.Random(ctx.seed * 31337 + 12)
    ctx.rule = ("(i) the geometries MC_Pairing enumerates (<=3-4 reference labels incl. coincident ones, <=2-3 query "
                "labels, seed offsets, maxD 0..2, both strands, fragment offsets), printed by TLC; (ii) random "
                "realistic geometries in bp (noisy copies of reference windows with missing/extra labels, fragments, "
                "both strands, seed offset jitter incl. exactly +-maxD), integer and half-integer coordinates; all "
                "through the real AlignerEngine.align, judged by TLC (Trace_Pairing). non-trivial = distinct input "
                "whose real result contains >= 1 pair and >= 1 unpaired label, or two candidates competing for a label")
    ctx.assumptions = ["reference coordinates ascending (CmapReader sorts); coordinates exact in binary floating point "
                       "(integers or halves) so that boundary comparisons are the same in Python and TLA+"]
    mc_res = {}

    def mc():
        try:
            mc_res["r"] = tlc.run_tlc("MC_Pairing", "MC_Pairing.cfg" if quick else "MC_Pairing_thorough.cfg",
                                      ctx.workdir, workers=6 if quick else 12, heap_gb=16)
        except Exception as e:
            mc_res["err"] = e

    th = threading.Thread(target=mc)
    th.start()
    space = batch.export_by_print("MC_Pairing", "Export_Pairing.cfg" if quick else "Export_Pairing_thorough.cfg",
                                  ctx.workdir)
    cases = [(c, 1) for c in space]
    n_rand = 3000 if quick else 60000
    for k in range(n_rand):
        cases.append((random_case(rng), 2 if k % 4 == 0 else 1))
    records = []
    for case, den in cases:
        try:
            obs = run_real(case, den)
        except Exception as e:
            obs = [{"k": "EXC:" + type(e).__name__, "r": [0, 0], "q": [0, 0], "sh": 0}]
        records.append({"in": case, "obs": obs})
        kinds = {o["k"] for o in obs}
        if "P" in kinds and len(kinds) > 1:
            ctx.nontrivial((tuple(case["ref"]), tuple(case["qry"]), case["start"], case["maxD"], case["rev"],
                            case["shift"], case["qlen"]))
    verdicts, r = batch.validate("Trace_Pairing", "Trace_Pairing.cfg", ctx.workdir, records,
                                 expected_states=8 * len(records))
    ctx.add_traces(len(records))
    ctx.notes["trace_validation"] = {"states": r.distinct, "wall_s": round(r.wall_s, 1),
                                     "from_tlc_exported_space": len(space), "random": n_rand}
    for tid, (failed, drift) in sorted(verdicts.items()):
        rec = records[tid]
        if failed:
            i = rec["in"]
            ctx.violation(rec, failed, "", what=f"ref={i['ref'][:8]} qry={i['qry'][:8]} start={i['start']} "
                                                 f"maxD={i['maxD']} rev={i['rev']} shift={i['shift']}")
        elif drift:
            ctx.add_drift(1, rec)
    ctx.sample(records[len(space) // 2])
    ctx.sample(records[-1])
    th.join()
    if "err" in mc_res:
        raise mc_res["err"]
    ctx.add_model("MC_Pairing", mc_res["r"])
    ctx.exhaustive = True
