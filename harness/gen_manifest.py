#!/venv/bin/python
"""Writes /verif/MANIFEST.json from the table below (single source of truth for the interface)."""
import json
import os

VERIF = os.path.dirname(os.path.dirname(os.path.abspath(__file__)))
ALL = [f"C{k:02d}" for k in range(1, 21)]

CHECKS = {
    "C13": dict(
        engine="tlc-segmenter",
        technique="TLC model checking of Segmenter.tla (exhaustive, bounded) + TLC batch trace validation of the "
                  "real AlignmentSegmentsFactory on the TLC-exported input space and random sequences",
        text="TLC exhausts the implementation-shaped segment builder on every score sequence up to length 5 (quick) / "
             "7 (thorough) over an alphabet that hits the threshold equalities and every (ms,bs), checking the C13 "
             "clauses as an invariant; the same input space is exported by TLC and run through the real factory, and "
             "TLC evaluates the C13 clauses on every real result (plus thousands of random longer sequences) and "
             "replays the Impl actions to detect drift between code and spec.",
        design_ref="DESIGN.md section 4 (C13), section 10",
        note="Trusted: TLC, the 60-line Python driver that builds position objects and records index ranges by "
             "object identity, the reading of C13 (bs>=1, converse only for ms<=bs). Beyond the bounds evidence is "
             "sampled traces.",
    ),
    "C03": dict(
        engine="tlc-row",
        technique="TLC model checking of Row.tla (every valid matching on a label grid, both strands) + TLC batch "
                  "trace validation of the real AlignmentResultRow.cigarString (TLC parses and decodes the text)",
        text="TLC exhausts the implementation-shaped HitEnum encoder (walk + run-length aggregation) on every valid "
             "matching of a 7x7 (quick) / 8x8 (thorough) label grid in both orientations against the C03 clauses; "
             "TLC exports the same matchings, the real cigarString encodes them (and random matchings of up to 300 "
             "pairs), and TLC parses each produced string character by character, replays it from the first pair "
             "and compares with the pairs.",
        design_ref="DESIGN.md section 4 (C03), section 10",
        note="Trusted: TLC, the driver that builds AlignmentResultRow objects from label pairs. End-to-end records "
             "are additionally judged by the pipeline checks (C01/C02) with the same Trace_Row clauses.",
    ),
    "C12": dict(
        engine="tlc-pairing",
        technique="TLC model checking of Pairing.tla (every small label geometry) + TLC batch trace validation of the "
                  "real AlignerEngine.align on TLC-printed and random realistic geometries",
        text="TLC exhausts the stage-by-stage model of AlignerEngine.align (window, candidates, two de-duplication "
             "passes, unpaired, stable sort) on every geometry of <=3-4 reference labels (coincident allowed), <=3 "
             "query labels, all seed offsets, maxD 0..2, both strands and fragment label offsets against the C12 "
             "clauses; TLC prints the same inputs, the real engine aligns them (and thousands of random bp-scale "
             "geometries incl. offsets exactly at +-maxD), and TLC evaluates the C12 clauses on every real result "
             "and replays the stages for drift.",
        design_ref="DESIGN.md section 4 (C12), section 10",
        note="Trusted: TLC; the driver that builds OpticalMap objects and records positions; coordinates are "
             "integers or halves so that Python float comparisons equal exact arithmetic.",
    ),
    "C14": dict(
        engine="tlc-chainer",
        technique="TLC model checking of Chainer.tla (DP + join score, exact rationals) + TLC batch trace validation "
                  "of the real SegmentChainer against exhaustive subset enumeration with the observed join matrix",
        text="TLC exhausts the chainer's dynamic programme on every set of <=3 lattice segments (both strands, both "
             "join variants, multipliers 0,1/2,1,2) against the C14 clauses; the same sets and random sets of up to 8 "
             "segments (shuffled, with empty segments) go through the real SegmentChainer, the join matrix is "
             "observed from the real SequentialityScorer as exact multiples of 1/55440, and TLC checks subset, "
             "order, finiteness, join<=0, contiguity=0, the half-overlap rule and optimality against every "
             "key-ordered subset; Impl replay for drift.",
        design_ref="DESIGN.md section 4 (C14), section 10",
        note="Lattice-scale coordinates only (exact arithmetic in 32-bit TLC integers); optimality is relative to "
             "the observed join scores; tie groups larger than 4 are not enumerated.",
    ),
}

NOT_YET = "check not built yet in this round; planned per DESIGN.md section 4 (no technique switch)"


def main():
    checks = []
    for pid in ALL:
        if pid not in CHECKS:
            continue
        c = CHECKS[pid]
        checks.append({
            "property_id": pid,
            "quick_cmd": f"./harness/check {pid} --tier quick",
            "thorough_cmd": f"./harness/check {pid} --tier thorough",
            "evidence_file": f"/verif/evidence/{pid}.json",
            "replay_cmd_template": f"./harness/check {pid} --replay {{path}}",
            "engine": c["engine"],
            "level_claimed": {"category": c.get("category", "model_checking"), "text": c["text"],
                              "design_ref": c["design_ref"]},
            "level_note": c["note"],
            "technique": c["technique"],
        })
    m = {
        "version": 1,
        "setup_cmd": "./harness/setup",
        "hooks": {
            "guard": "COMA_VERIF",
            "enable": "no source hooks are needed: checks import /repo's working tree (PYTHONPATH) and observe "
                      "return values, Program(args, extensions=[recorder]) messages and file text",
            "baseline_off_cmd": "cd /repo && /venv/bin/python -m pytest -ra -q -p no:cacheprovider --timeout=900 "
                                "--continue-on-collection-errors",
            "source_commits": [],
            "add_only": True,
        },
        "engines": [
            {"name": "tlc-segmenter", "path": "spec/Segmenter.tla", "serves_properties": ["C13"],
             "kind_free_text": "TLA+ spec (MC_/Export_/Trace_ configs) checked with TLC; harness/props/c13.py"},
            {"name": "tlc-pairing", "path": "spec/Pairing.tla", "serves_properties": ["C12"],
             "kind_free_text": "TLA+ spec (MC_/Export_/Trace_ configs) checked with TLC; harness/props/c12.py"},
            {"name": "tlc-chainer", "path": "spec/Chainer.tla", "serves_properties": ["C14"],
             "kind_free_text": "TLA+ spec (MC_/Export_/Trace_ configs) checked with TLC; harness/props/c14.py"},
            {"name": "tlc-row", "path": "spec/Row.tla", "serves_properties": ["C03"],
             "kind_free_text": "TLA+ spec (MC_/Export_/Trace_ configs) checked with TLC; harness/props/c03.py"},
        ],
        "checks": checks,
        "notes": "One implementation-shaped TLA+ specification (spec/), used for (A) exhaustive model checking, "
                 "(B) TLC-exported inputs replayed into the real code and (C) TLC batch trace validation of real "
                 "outputs. VIOLATION only when a property predicate evaluated by TLC is FALSE on data produced by "
                 "the real code; spec/code disagreement is reported as DRIFT and does not fail a check.",
        "not_applicable": [{"property_id": p, "reason": NOT_YET} for p in ALL if p not in CHECKS],
    }
    with open(os.path.join(VERIF, "MANIFEST.json"), "w") as f:
        json.dump(m, f, indent=1)
    print("MANIFEST.json:", len(checks), "checks,", len(m["not_applicable"]), "not_applicable")


if __name__ == "__main__":
    main()
