#!/venv/bin/python
"""Writes /verif/MANIFEST.json from the table below (single source of truth for the interface)."""
import json
import os

VERIF = os.path.dirname(os.path.dirname(os.path.abspath(__file__)))
ALL = [f"C{k:02d}" for k in range(1, 21)]

CHECKS = {
    "C13": dict(
        engine="tlc-segmenter",
        technique="TLC model checking of Segmenter.tla (exhaustive, bounded) + TLC batch trace validation of the "
                  "real AlignmentSegmentsFactory on the TLC-exported input space and random sequences",
        text="TLC exhausts the implementation-shaped segment builder on every score sequence up to length 5 (quick) / "
             "7 (thorough) over an alphabet that hits the threshold equalities and every (ms,bs), checking the C13 "
             "clauses as an invariant; the same input space is exported by TLC and run through the real factory, and "
             "TLC evaluates the C13 clauses on every real result (plus thousands of random longer sequences, incl. "
             "one-decimal scores whose only exact ties are cancellations at a run start) and "
             "replays the Impl actions to detect drift between code and spec.",
        design_ref="DESIGN.md section 4 (C13), section 10",
        note="Trusted: TLC, the 60-line Python driver that builds position objects and records index ranges by "
             "object identity, the reading of C13 (bs>=1, converse only for ms<=bs). Beyond the bounds evidence is "
             "sampled traces.",
    ),
    "C03": dict(
        engine="tlc-row",
        technique="TLC model checking of Row.tla (every valid matching on a label grid, both strands) + TLC batch "
                  "trace validation of the real AlignmentResultRow.cigarString (TLC parses and decodes the text)",
        text="TLC exhausts the implementation-shaped HitEnum encoder (walk + run-length aggregation) on every valid "
             "matching of a 7x7 (quick) / 8x8 (thorough) label grid in both orientations against the C03 clauses; "
             "TLC exports the same matchings, the real cigarString encodes them (and random matchings of up to 300 "
             "pairs), and TLC parses each produced string character by character, replays it from the first pair "
             "and compares with the pairs.",
        design_ref="DESIGN.md section 4 (C03), section 10",
        note="Trusted: TLC, the driver that builds AlignmentResultRow objects from label pairs. End-to-end records "
             "are additionally judged by the pipeline checks (C01/C02) with the same Trace_Row clauses.",
    ),
    "C12": dict(
        engine="tlc-pairing",
        technique="TLC model checking of Pairing.tla (every small label geometry) + TLC batch trace validation of the "
                  "real AlignerEngine.align on TLC-printed and random realistic geometries",
        text="TLC exhausts the stage-by-stage model of AlignerEngine.align (window, candidates, two de-duplication "
             "passes, unpaired, stable sort) on every geometry of <=3-4 reference labels (coincident allowed), <=3 "
             "query labels, all seed offsets, maxD 0..2, both strands and fragment label offsets against the C12 "
             "clauses; TLC prints the same inputs, the real engine aligns them (and thousands of random bp-scale "
             "geometries incl. offsets exactly at +-maxD), and TLC evaluates the C12 clauses on every real result "
             "and replays the stages for drift.",
        design_ref="DESIGN.md section 4 (C12), section 10",
        note="Trusted: TLC; the driver that builds OpticalMap objects and records positions; coordinates are "
             "integers or halves so that Python float comparisons equal exact arithmetic.",
    ),
    "C14": dict(
        engine="tlc-chainer",
        technique="TLC model checking of Chainer.tla (DP + join score, exact rationals) + TLC batch trace validation "
                  "of the real SegmentChainer against exhaustive subset enumeration with the observed join matrix",
        text="TLC exhausts the chainer's dynamic programme on every set of <=3 lattice segments (both strands, both "
             "join variants, multipliers 0,1/2,1,2) against the C14 clauses; the same sets and random sets of up to 8 "
             "segments (shuffled, with empty segments) go through the real SegmentChainer, the join matrix is "
             "observed from the real SequentialityScorer as exact multiples of 1/55440, and TLC checks subset, "
             "order, finiteness, join<=0, contiguity=0, the half-overlap rule and optimality against every "
             "key-ordered subset; Impl replay for drift.",
        design_ref="DESIGN.md section 4 (C14), section 10",
        note="Lattice-scale coordinates only (exact arithmetic in 32-bit TLC integers); optimality is relative to "
             "the observed join scores; tie groups larger than 4 are not enumerated.",
    ),
    "C01": dict(
        engine="tlc-aligncore",
        technique="TLC model checking of AlignCore.tla (composition Pairing/Segmenter/Chainer/Resolver/Row) + TLC "
                  "batch trace validation of real Aligner.align rows and of every record of every XMAP file",
        text="TLC exhausts the composed model of Aligner.align on small lattice inputs (2-3 seed peaks) with the "
             "invariants C01/C04/C15/C07; the same inputs and thousands of realistic multi-peak ladders go through "
             "the real Aligner (factory wiring) and TLC evaluates the C01 clauses on every row and replays the "
             "composed model (chain order logged at real scale); at file level every record of every XMAP file of "
             "the four modes on generated CMAP sets (incl. swapped / duplicated / split molecules that force joins) "
             "is parsed independently and judged by TLC against the CMAP text.",
        design_ref="DESIGN.md section 4 (C01), section 10",
        note="Bounded model (lattice, <=3 peaks); real-scale evidence is sampled traces. Trusted: TLC, the "
             "independent XMAP/CMAP text handling in harness/lib/pipeline.py.",
    ),
    "C02": dict(
        engine="tlc-xmap",
        technique="TLC model checking of Xmap.tla (record computed as the code computes it vs declarative clauses) + "
                  "TLC batch validation of every record's text against the CMAP text",
        text="TLC checks, for every valid matching between small maps (non-zero first label, trailing length, "
             "decimals, both strands), that the record header computed the way AlignmentResultRow.create / "
             "getPositionsWithSiteIds / the writer compute it satisfies the C02 clauses; end to end, every record of "
             "every file of every mode is parsed from the XMAP text by an independent parser and TLC compares "
             "XmapEntryID, ids, RefLen/QryLen, Ref/Qry start/end and orientation with the CMAP text, for first- and "
             "second-pass records.",
        design_ref="DESIGN.md section 4 (C02), section 10",
        note="C02 clauses are evaluated on records that satisfy C01 (first/last listed pair well defined).",
    ),
    "C04": dict(
        engine="tlc-aligncore",
        technique="TLC model checking of AlignCore.tla (invariant C04) + TLC batch trace validation of real "
                  "Aligner.align rows: offsets, scores and confidence recomputed from raw maps, peak and parameters; "
                  "rows returned by Program.run() against the Confidence column (Trace_RowScore); option -> component "
                  "wiring (Wiring.tla / Trace_Wiring)",
        text="Same exploration as C01 at candidate level; TLC recomputes every pair's offset from the raw maps and the "
             "segment's seed peak, every position score from the parameters the harness passed (6-8 vectors), the "
             "confidence as the exact sum, and checks that every label inside a segment's span is accounted for and "
             "none is counted twice.",
        design_ref="DESIGN.md section 4 (C04), section 10",
        note="Exact integer arithmetic (scores multiplied by the denominator of the distance penalty multiplier).",
    ),
    "C15": dict(
        engine="tlc-resolver",
        technique="TLC batch trace validation of the real AlignmentSegmentConflictResolver against Resolver.tla "
                  "(C15 clauses + replay of the pairwise pass); the module is model-checked inside MC_AlignCore",
        text="Segment lists (2..10 segments) built by the real Aligner.getSegments from ladders of seed peaks on "
             "generated label data are resolved by the real resolver; TLC checks that every output segment is a "
             "contiguous sub-run of one input segment with the recomputed score, that no two share a label or "
             "cross, and that pairs outside every overlap are kept, and replays the pass action by action (drift). "
             "TLC reproduces the pinned-commit defect (MC_AlignCore_d4.cfg) as a 3-segment counter-example.",
        design_ref="DESIGN.md section 4 (C15), section 10",
        note="Chain order is a logged choice (decided by C14). Trusted: object-identity recording in the driver.",
    ),
    "C16": dict(
        engine="tlc-vectorise",
        technique="TLC model checking of Vectorise.tla + TLC batch trace validation of the real vectorisePositions, "
                  "blur, toRelativeGenomicPositions, PeaksSelector.selectPeaks, OpticalMap.getSequence (composed entry) and "
                  "CorrelationResult.createPeaks (per-correlation cut); TLC trace validation (Trace_Seeding over Seeding.tla) of "
                  "the real OpticalMap.getInitialAlignment and InitialAlignment.refine and (Trace_Worker over Worker.tla) of the messages every task "
                  "dispatches inside the worker",
        text="TLC exhausts the sliding-window state machine (negative starts, ends before the last label, end=0), "
             "blur (all vectors up to length 7, radii 0..3), bin centres (resolutions 1..12) and top-N selection "
             "with ties on small cases against the C16 clauses; the same cases and random large ones go through the "
             "real functions and TLC judges every result. The stage that composes them, getInitialAlignment, is replayed "
             "action by action against Seeding.tla (exact Dice correlation, maxima, height / distance filters, top "
             "peaksCount): seeds must be bin centres and the kept ones the highest of the candidates. The coordinator's "
             "per-task event log (recorder Extension, per-process sequence numbers) is replayed against Worker.tla: the "
             "seeds that are refined must be the peaksCount highest primary peaks over all references and strands.",
        design_ref="DESIGN.md section 4 (C16), section 10, 10.13",
        note="The correlation is modelled in exact rational arithmetic (Seeding.tla); where floating point breaks an exact "
             "tie the specification allows either outcome and the logged seeds bind the choice.",
    ),
    "C18": dict(
        engine="tlc-xmap",
        technique="TLC batch validation (Trace_Xmap, C18 clauses) of what the project's XmapReader returns for every "
                  "file the real pipeline wrote, against the independently parsed text and the CMAP text",
        text="Every XMAP file of every mode (incl. zero- and one-record files) is read back with the project's "
             "reader wired as Program wires it; TLC compares each alignment with its record (ids, orientation, "
             "HitEnum, pairs, truncated coordinates and lengths, confidence, pair coordinates from the maps); the "
             "harness checks count and order. In addition the whole record space of MC_Xmap (every matching on 4x4 "
             "labels, both strands, single-pair records) is turned into real rows, written by the real writer and "
             "read back (spec -> code); there the read-back is also compared with the values of the row objects "
             "handed to the writer (read before the file is written).",
        design_ref="DESIGN.md section 4 (C18), section 10",
        note="Record-level model: MC_Xmap.",
    ),
    "C05": dict(
        engine="tlc-pipeline",
        technique="TLC model checking of Pipeline.tla / Worker.tla (filter, resolve, mode dispatch, best-candidate "
                  "choice on abstract rows) + TLC batch validation of the files of the four modes and of the "
                  "candidates and seed peaks recorded inside the worker; TLC trace validation (Trace_Worker) of every "
                  "message each task dispatched, replayed action by action against Worker.tla",
        text="TLC exhausts filter / resolve / mode dispatch for every set of first- and second-pass rows of two "
             "queries and every join outcome (C05 file clauses), and the worker's peak selection / best-candidate "
             "choice; end to end the four modes run on generated inputs (peaksCount 1,2,3,5; repetitive references), "
             "a harness Extension records candidates and seed peaks inside the worker, and TLC checks one record per "
             "query, ascending ids, best-mode coverage, that a query without a joined record gets in 'best' a record at "
             "least as confident as each of its pass records, that the first-pass record is a maximal candidate and "
             "that the refined seeds are the top-peaksCount primary peaks. Worker.tla has one action per dispatched message "
             "(Correlate, Select, Refine, Row, Multi, PickBest); the recorder's per-process event log of every task is "
             "replayed against it (Trace_Worker) and the returned row must be a most confident candidate.",
        design_ref="DESIGN.md section 4 (C05), section 10, 10.14",
        note="The correlation that produces the peaks is numerical and not modelled; its outcome is observed.",
    ),
    "C07": dict(
        engine="tlc-pipeline",
        technique="TLC model checking with every partial operation an explicit Abort action (Worker.tla, "
                  "Resolver/AlignCore) + fault-free exploration of degenerate CMAP inputs through the real "
                  "pipeline (in process and CLI) with TLC comparing the ordinary queries' records (Trace_SameFiles) + TLC trace validation (Trace_Seeding) of the real getInitialAlignment / refine on degenerate geometries (a call that raises where Seeding.tla has no named abort)",
        text="MC_Worker shows that the repaired worker never aborts when no peak is selected (and that the pinned "
             "one did); degenerate but valid CMAP sets (1-2 label molecules, duplicate positions, queries longer "
             "than every reference, 1-2 label references, inputs without alignable queries, dense/sparse molecules) "
             "run in five modes with ten parameter vectors, in process and through the CLI, to files (with / without "
             "extension), to the standard output (pipe / redirected) and to a device: any exception or "
             "non-zero exit is a violation, every file must be well formed and readable by the project's reader, "
             "and TLC checks that the records of the ordinary queries equal those of a run without the degenerate "
             "molecules.",
        design_ref="DESIGN.md section 4 (C07), section 10",
        note="'Well-formed' = the documented CMAP format with at least one label row and an end-marker per molecule.",
    ),
    "C08": dict(
        engine="tlc-pipeline",
        technique="TLC model checking of Pipeline.tla (mode dispatch on abstract rows, every join outcome) + TLC "
                  "batch validation of the nine files the four modes write for one input (Trace_Pipeline)",
        text="TLC exhausts the dispatch for two queries (C08 file relations hold for every join outcome); end to "
             "end, inputs built to be aligned in two passes (split / swapped / duplicated windows, indels, chimeras, "
             "half-junk) run in best/separate/joined/all with four maxDifference values and TLC checks file "
             "equalities, AlignedRest flags, the accounting of single-pass records (un-joined ones listed once), that every joined record has a "
             "first- and a second-pass part on the same reference and strand within maxDifference, that its pairs "
             "are a subset of the union and equal to it when the union is a valid matching; the dispatch is replayed "
             "from all._1/all._2 for drift. The join itself (Join.tla) is model-checked on pairs of lattice rows and the "
             "real AlignmentResultRow.resolve is run on every pair TLC prints plus realistic row pairs (Trace_Join); the "
             "one recorded known finding (D7, merge cut inside the conflict zone) is matched by a structural signature.",
        design_ref="DESIGN.md section 4 (C08), section 10",
        note="Records are compared as independently parsed text fields.",
    ),
    "C06": dict(
        engine="tlc-aligncore",
        technique="TLC model checking of the discrete placement lemma (MC_Planted over AlignCore.tla) + TLC batch "
                  "validation (Trace_Planted) of what the real pipeline reports for planted queries; TLC model checking of "
                  "the seeding and refinement stages (MC_Seeding, MC_Refine over Seeding.tla: exact correlation, peak finding) + "
                  "trace validation (Trace_Seeding) of the real getInitialAlignment / refine",
        text="TLC proves on small lattices that an exact copy whose seed lies within maxD of the true diagonal (spacing "
             "> 2 maxD) is aligned to exactly the true pairs on both strands; the property itself is decided on "
             "planted inputs in the quantifier's domain (single reference, spacing >= 2 kb, mean >= 9 kb, windows of "
             "15-45 interior labels, both strands, offsets and trailing lengths, decimals, label-dense stretches, "
             "segmental duplications with a diverged copy) run through the real "
             "pipeline with default parameters in every output mode, TLC checking reference, strand, exact pairs, "
             "offsets <= 200 bp and HitEnum nM. The seeding half is a model of its own since round 9 (Seeding.tla): TLC shows "
             "that a planted lattice copy has correlation sample 1 (the global maximum) at its true offset and that an "
             "exact locus that is a strict interior maximum is always among the seeds, and replays the real stage "
             "(2 200 calls) against the model.",
        design_ref="DESIGN.md section 4 (C06), section 6, section 10, 10.13",
        note="The cross-correlation / peak finding is numerical: for that half the evidence is sampled inputs "
             "(exploration), stated in the evidence file; only the lemma is exhaustive.",
    ),
    "C09": dict(
        engine="tlc-pool",
        technique="TLC model checking of Pool.tla (all interleavings of Take/Finish/Yield, both ways the per-process "
                  "counter travels) + TLC-enumerated completion orders steering the real pathos pool + byte comparison "
                  "of CLI runs with -c 1..16, judged by TLC (Trace_Pool) + TLC liveness checking (every map delivers every result under weak fairness, MC_Pool_live.cfg)",
        text="TLC explores every schedule of the ordered parallel map for 4 tasks x 3 workers (5 x 4 thorough) and "
             "shows that what reaches the files is schedule independent while the source tags are not (named "
             "deviation); TLC enumerates the feasible completion orders for 6 tasks / 3 workers and a harness "
             "Extension sleeping inside the workers steers the real pool into them; the unmodified CLI runs with "
             "several -c values and repetitions, and the process that ran the steered schedules aligns against another "
             "reference file with old and new worker counts; TLC compares all digests and checks the recorded "
             "executions against the Pool model. Runs.tla models the life of the pools across the runs of one process "
             "(inputs delivered with the task / inherited at fork x pool cleared / cached): TLC shows every task is "
             "computed from its own run's inputs for the code as it is and finds the stale-pool deviation; the real "
             "process history (which reference file each written record stems from) is validated against it.",
        design_ref="DESIGN.md section 4 (C09), section 10",
        note="Header lines echoing arguments, host and absolute paths are excluded from the byte comparison.",
    ),
    "C10": dict(
        engine="tlc-pool",
        technique="TLC model checking of Pool.tla (Inv_C10: any subset / order of tasks with a shared aligner counter) "
                  "+ variant runs of the real pipeline compared record by record by TLC (Trace_SameFiles)",
        text="The model lets any subset of tasks run in any order with the shared counter and checks that a task's "
             "yielded record is a function of the task; end to end, each input is run in full, with queries removed "
             "and reordered, with CMAP rows shuffled, with references reordered, with -qId/-rId and on physically "
             "restricted files, single molecules alone (every fourth input with consecutive ids beyond 2^53), and TLC "
             "compares every record field (XmapEntryID renumbered only where the query set differs).",
        design_ref="DESIGN.md section 4 (C10), section 10",
        note="Assumes no exact score ties between references (random references).",
    ),
    "C11": dict(
        engine="tlc-aligncore",
        technique="TLC model checking of a two-run invariant over AlignCore.tla (MC_Mirror) + TLC batch validation "
                  "(Trace_Mirror) of first-pass records of queries and their mirror images on lattice CMAP sets",
        text="TLC runs the composed Aligner.align model on a query and on its mirror image (other strand, same seeds) "
             "for every small lattice input and checks that the rows are mirror images; with the pinned reverse-"
             "strand join score it produces an on-lattice counter-example. End to end, lattice CMAP sets (step 1400 "
             "bp = lcm of both resolutions, maxPairDistance < step/2) contain every query together with its mirror "
             "image (incl. inverted repeats, short contigs and decoy loci with strong seeds but few pairs) and TLC "
             "compares the two 'separate'-mode records.",
        design_ref="DESIGN.md section 4 (C11), section 10",
        note="Default resolutions; the symmetry of binning relies on lattice coordinates as the property states.",
    ),
    "C17": dict(
        engine="tlc-cmap",
        technique="TLC model checking of Cmap.tla (row-level reader, every row order and filter) + TLC batch validation "
                  "of the real CmapReader on harness-rendered CMAP text and of OpticalMap.trim",
        text="TLC exhausts small files (<=2 molecules, 0-2 labels, all row permutations, all filters) against the C17 "
             "clauses; the same row lists and random larger ones are rendered as CMAP text (decimals, shuffled, extra "
             "columns) and read by the real reader; TLC checks ids, exact ascending coordinates, truncated length, "
             "filter semantics, and trim (first label 0, count, distances, length, idempotence).",
        design_ref="DESIGN.md section 4 (C17), section 10",
        note="pandas' text parsing is covered by conformance only.",
    ),
    "C19": dict(
        engine="tlc-compare",
        technique="TLC model checking of Compare.tla (dict construction, combination of query sources, counts) + TLC "
                  "batch validation of the real AlignmentComparer on (A,B), (B,A), (A,A)",
        text="TLC exhausts pairs of small alignment sets (duplicate keys, empty / duplicated-query pair lists, both "
             "flags) against the counting, swap and self-comparison clauses; the same sets and random larger ones (some "
             "pair lists repeat a pair) go "
             "through the real comparer in three arrangements and TLC checks the partition of keys, ranges, "
             "reflexivity and swap symmetry, and compares rows with the model.",
        design_ref="DESIGN.md section 4 (C19), section 10",
        note="The identity ratio (difflib) is observed, not modelled.",
    ),
    "C20": dict(
        engine="tlc-indels",
        technique="TLC model checking of Indels.tla (clustering loop, D9 deviation shown) + TLC batch validation of "
                  "the real cluster_indels / write_indel_file / both look_for_indels_in_breakage; TLC model checking of Finder.tla (the molecule indel finder) + trace validation (Trace_Finder) of the calls it writes for COMA's own files",
        text="TLC exhausts sorted lists of <=4 calls on two chromosomes against the conservation clauses; the same "
             "lists (scaled to the real blur) and random ones go through the real cluster_indels and write_indel_file "
             "(file parsed independently; a share of the list objects is clustered / written a second time and judged "
             "against the same calls); synthetic alignments with one break point go through both finders and TLC "
             "checks Length and type of every emitted call (one trace line per finder invocation: calls must stem from "
             "the alignment fed). sv/molecule_indels.run is also driven end to end on the joined / first / second pass "
             "files the real COMA writes: every un-merged call must carry the coordinates of two consecutive aligned "
             "pairs of the joined record (this found D12, fixed in /repo).",
        design_ref="DESIGN.md section 4 (C20), section 10",
        note="The averaged Length of merged clusters is not part of the property.",
    ),
}

NOT_YET = "check not built yet in this round; planned per DESIGN.md section 4 (no technique switch)"


def main():
    checks = []
    for pid in ALL:
        if pid not in CHECKS:
            continue
        c = CHECKS[pid]
        checks.append({
            "property_id": pid,
            "quick_cmd": f"./harness/check {pid} --tier quick",
            "thorough_cmd": f"./harness/check {pid} --tier thorough",
            "evidence_file": f"/verif/evidence/{pid}.json",
            "replay_cmd_template": f"./harness/check {pid} --replay {{path}}",
            "engine": c["engine"],
            "level_claimed": {"category": c.get("category", "model_checking"), "text": c["text"],
                              "design_ref": c["design_ref"]},
            "level_note": c["note"],
            "technique": c["technique"],
        })
    m = {
        "version": 1,
        "setup_cmd": "./harness/setup",
        "hooks": {
            "guard": "COMA_VERIF",
            "enable": "no source hooks are needed: checks import /repo's working tree (PYTHONPATH) and observe "
                      "return values, Program(args, extensions=[recorder]) messages and file text",
            "baseline_off_cmd": "cd /repo && /venv/bin/python -m pytest -ra -q -p no:cacheprovider --timeout=900 "
                                "--continue-on-collection-errors",
            "source_commits": [],
            "add_only": True,
        },
        "engines": [
            {"name": "tlc-segmenter", "path": "spec/Segmenter.tla", "serves_properties": ["C13"],
             "kind_free_text": "TLA+ spec (MC_/Export_/Trace_ configs) checked with TLC; harness/props/c13.py"},
            {"name": "tlc-pairing", "path": "spec/Pairing.tla", "serves_properties": ["C12"],
             "kind_free_text": "TLA+ spec (MC_/Export_/Trace_ configs) checked with TLC; harness/props/c12.py"},
            {"name": "tlc-chainer", "path": "spec/Chainer.tla", "serves_properties": ["C14"],
             "kind_free_text": "TLA+ spec (MC_/Export_/Trace_ configs) checked with TLC; harness/props/c14.py"},
            {"name": "tlc-aligncore", "path": "spec/AlignCore.tla", "serves_properties": ["C01", "C04", "C06", "C11"],
             "kind_free_text": "composition of the component specs; MC_AlignCore, Trace_AlignCore; harness/props/c01.py, c04.py"},
            {"name": "tlc-resolver", "path": "spec/Resolver.tla", "serves_properties": ["C15"],
             "kind_free_text": "Trace_Resolver; harness/props/c15.py"},
            {"name": "tlc-xmap", "path": "spec/Xmap.tla", "serves_properties": ["C02", "C18"],
             "kind_free_text": "MC_Xmap, Trace_Xmap; harness/props/c02.py, c18.py, pipe_common.py"},
            {"name": "tlc-vectorise", "path": "spec/Vectorise.tla", "serves_properties": ["C16"],
             "kind_free_text": "MC_Vectorise, Trace_Vectorise; Seeding.tla, MC_Seeding, Trace_Seeding (getInitialAlignment); harness/props/c16.py, seeding.py"},
            {"name": "tlc-pipeline", "path": "spec/Pipeline.tla", "serves_properties": ["C05", "C07", "C08"],
             "kind_free_text": "Pipeline.tla, Worker.tla, MC_Pipeline, MC_Worker, Trace_Pipeline, Trace_SameFiles; harness/props/c05.py, c07.py, c08.py"},
            {"name": "tlc-pool", "path": "spec/Pool.tla", "serves_properties": ["C09", "C10"],
             "kind_free_text": "MC_Pool, Export_Pool (schedules), Trace_Pool, Trace_SameFiles; harness/props/c09.py, c10.py"},
            {"name": "tlc-cmap", "path": "spec/Cmap.tla", "serves_properties": ["C17"],
             "kind_free_text": "MC_Cmap, Trace_Cmap; harness/props/c17.py"},
            {"name": "tlc-compare", "path": "spec/Compare.tla", "serves_properties": ["C19"],
             "kind_free_text": "MC_Compare, Trace_Compare; harness/props/c19.py"},
            {"name": "tlc-indels", "path": "spec/Indels.tla", "serves_properties": ["C20"],
             "kind_free_text": "MC_Indels, Trace_Indels; harness/props/c20.py"},
            {"name": "tlc-seeding", "path": "spec/Seeding.tla", "serves_properties": ["C06", "C07", "C16"],
             "kind_free_text": "getInitialAlignment and refine as state machines in exact arithmetic; MC_Seeding, MC_Refine, Trace_Seeding; harness/props/seeding.py"},
            {"name": "tlc-worker", "path": "spec/Worker.tla", "serves_properties": ["C05", "C07", "C16"],
             "kind_free_text": "one action per dispatched message; MC_Worker, Trace_Worker (per-task event logs), spec/apalache/Apa_Worker.tla; harness/props/worker.py"},
            {"name": "tlc-finder", "path": "spec/Finder.tla", "serves_properties": ["C20"],
             "kind_free_text": "sv/molecule_indels for one joined record; MC_Finder, Trace_Finder; harness/props/c20.py"},
            {"name": "tlc-row", "path": "spec/Row.tla", "serves_properties": ["C03"],
             "kind_free_text": "TLA+ spec (MC_/Export_/Trace_ configs) checked with TLC; harness/props/c03.py"},
        ],
        "checks": checks,
        "notes": "One implementation-shaped TLA+ specification (spec/), used for (A) exhaustive model checking, "
                 "(B) TLC-exported inputs replayed into the real code and (C) TLC batch trace validation of real "
                 "outputs. VIOLATION only when a property predicate evaluated by TLC is FALSE on data produced by "
                 "the real code; spec/code disagreement is reported as DRIFT and does not fail a check.",
        "not_applicable": [{"property_id": p, "reason": NOT_YET} for p in ALL if p not in CHECKS],
    }
    with open(os.path.join(VERIF, "MANIFEST.json"), "w") as f:
        json.dump(m, f, indent=1)
    print("MANIFEST.json:", len(checks), "checks,", len(m["not_applicable"]), "not_applicable")


if __name__ == "__main__":
    main()
