----------------------------- MODULE MC_Pairing -----------------------------
(* (A) exhaustive: AlignerEngine.align as modelled satisfies C12 on every small geometry:      *)
(* ascending reference coordinates on 0..RefMax (coincident labels allowed), query coordinates *)
(* on 0..QryMax, every seed offset, maxD, strand and fragment label offset.                    *)
EXTENDS Pairing, Json, IOUtils, SequencesExt

StartsQuick == -1..4
StartsThorough == -2..7
CONSTANTS RefMaxLen, RefMax, QryMaxLen, QryMax, StartSet, MaxDSet, ShiftSet

Base(st, d, rv, sh) == [ref |-> <<>>, qry |-> <<>>, qlen |-> 0, shift |-> sh, start |-> st, end |-> st,
                        maxD |-> d, rev |-> rv]

\* the input is grown inside the behaviour so that all TLC workers share the enumeration
Init == \E st \in StartSet, d \in MaxDSet, rv \in BOOLEAN, sh \in ShiftSet :
           /\ inp = Base(st, d, rv, sh)
           /\ win = <<>> /\ qls = <<>> /\ cand = <<>> /\ keptQ = <<>> /\ keptR = <<>> /\ unp = <<>> /\ out = <<>>
           /\ pc = "genRef"
GenRef == /\ pc = "genRef" /\ Len(inp.ref) < RefMaxLen
          /\ \E x \in (IF inp.ref = <<>> THEN 0 ELSE inp.ref[Len(inp.ref)])..RefMax :
                inp' = [inp EXCEPT !.ref = Append(@, x)]
          /\ UNCHANGED <<win, qls, cand, keptQ, keptR, unp, out, pc>>
GenRefDone == /\ pc = "genRef" /\ pc' = "genQry" /\ UNCHANGED <<inp, win, qls, cand, keptQ, keptR, unp, out>>
\* whole queries are trimmed (first label at 0); fragments (shift > 0) start anywhere
GenQry == /\ pc = "genQry" /\ Len(inp.qry) < QryMaxLen
          /\ \E x \in (IF inp.qry = <<>> THEN (IF inp.shift = 0 THEN 0 ELSE 1) ELSE inp.qry[Len(inp.qry)])..
                      (IF inp.qry = <<>> /\ inp.shift = 0 THEN 0 ELSE QryMax) :
                inp' = [inp EXCEPT !.qry = Append(@, x)]
          /\ UNCHANGED <<win, qls, cand, keptQ, keptR, unp, out, pc>>
\* the whole query may extend beyond the fragment's last label (trailing labels of the whole query)
GenQryDone == /\ pc = "genQry" /\ Len(inp.qry) >= 1
              /\ \E extra \in 0..(IF inp.shift = 0 THEN 0 ELSE 1) :
                   LET ql == inp.qry[Len(inp.qry)] + 1 + extra IN
                   inp' = [inp EXCEPT !.qlen = ql, !.end = inp.start + ql]
              /\ pc' = "window"
              /\ UNCHANGED <<win, qls, cand, keptQ, keptR, unp, out>>

Next == GenRef \/ GenRefDone \/ GenQry \/ GenQryDone \/ PairNext
Inv_C12 == Done => C12_Holds(inp, out)

\* (B) export: every complete input is printed once as JSON (Export_Pairing*.cfg stops the search there)
ExportInv == pc = "window" => PrintT("X" \o ToJson(inp))
ExportStop == pc \in {"genRef", "genQry", "window"}
=============================================================================
