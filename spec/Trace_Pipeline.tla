---------------------------- MODULE Trace_Pipeline ----------------------------
(* (C) batch validation of the files written by the REAL pipeline for one input in the four output modes.     *)
(*  {"runs": {"best": {"main": [row..], "f1": [], "f2": []}, "separate": {...}, "joined": {...}, "all": {...}}, *)
(*   "maxDiff": bp, "peaksCount": n,                                                                            *)
(*   "cands": [{"q": id, "cands": [{"r", "ori", "conf" (1/10000), "pairs"}]}]   first-pass candidates per query  *)
(*  }   row = {q, r, ori, conf (1/100), rs, re, qs, qe (deci-bp), rest, hit, pairs}                               *)
(* failed: C05 / C08 clauses on the observed files (decide);                                                     *)
(* drift : Emit(mode, all._1, all._2) with the observed join outcomes differs from the observed files (informs)  *)
EXTENDS Pipeline, Json, IOUtils

Traces == ndJsonDeserialize(IOEnv.TRACE_FILE)
VARIABLES t, pc
tr == Traces[t]
Init == t \in 1..Len(Traces) /\ pc = "judge"

Prefix(p, S) == {p \o c : c \in S}
\* a row joined with ITSELF ('best' only, see SameFileButRest) is that row again, whatever 'all' joined for the query
ObsJoin(a, b) == IF SameRecord(a, b) THEN a ELSE
                 IF \E j \in 1..Len(tr.runs.all.main) : tr.runs.all.main[j].q = a.q
                 THEN tr.runs.all.main[CHOOSE j \in 1..Len(tr.runs.all.main) : tr.runs.all.main[j].q = a.q]
                 ELSE NoRow
CandsOf(q) == IF \E j \in 1..Len(tr.cands) : tr.cands[j].q = q
              THEN tr.cands[CHOOSE j \in 1..Len(tr.cands) : tr.cands[j].q = q].cands ELSE <<>>

Verdict ==
    LET R == tr.runs
        c05 == C05_File_Failed(R.best.main, TRUE) \cup C05_File_Failed(R.separate.main, TRUE)
               \cup C05_File_Failed(R.joined.main, TRUE) \cup C05_File_Failed(R.all.main, TRUE)
               \cup C05_File_Failed(R.separate.f1, FALSE) \cup C05_File_Failed(R.all.f1, FALSE)
               \cup C05_File_Failed(R.all.f2, FALSE)
               \cup C05_BestMode_Failed(R.best.main, R.all.f1)
               \cup C05_BestOfPasses_Failed(R.best.main, R.all.main, R.all.f1, R.all.f2)
               \cup (IF tr.cands = <<>> THEN {}
                     ELSE UNION {IF CandsOf(R.all.f1[j].q) = <<>> THEN {"first_pass_record_without_candidates"}
                                 ELSE C05_Best_Failed(R.all.f1[j], CandsOf(R.all.f1[j].q), tr.peaksCount)
                                 : j \in 1..Len(R.all.f1)})
        c08 == C08_Failed(R, tr.maxDiff)
        failed == Prefix("C05:", c05) \cup Prefix("C08:", c08)
        sep == Emit("separate", R.all.f1, R.all.f2, tr.maxDiff * 10, ObsJoin)
        jnd == Emit("joined", R.all.f1, R.all.f2, tr.maxDiff * 10, ObsJoin)
        al  == Emit("all", R.all.f1, R.all.f2, tr.maxDiff * 10, ObsJoin)
        bst == Emit("best", R.all.f1, R.all.f2, tr.maxDiff * 10, ObsJoin)
        drift == (IF SameFile(sep.main, R.separate.main) /\ SameFile(sep.f1, R.separate.f1) THEN {} ELSE {"separate_mode_files_differ_from_spec"})
                 \cup (IF SameFile(jnd.main, R.joined.main) /\ SameFile(jnd.f1, R.joined.f1) THEN {} ELSE {"joined_mode_files_differ_from_spec"})
                 \cup (IF SameFile(al.main, R.all.main) THEN {} ELSE {"all_mode_main_differs_from_spec"})
                 \cup (IF SameFileButRest(bst.main, R.best.main) THEN {} ELSE {"best_mode_main_differs_from_spec"})
    IN IF failed \cup drift = {} THEN TRUE ELSE PrintT(ToString(<<"V", t, failed, drift>>))

Report == pc = "judge" /\ Verdict /\ pc' = "reported" /\ UNCHANGED t
Terminated == pc = "reported" /\ UNCHANGED <<t, pc>>
Next == Report \/ Terminated
=============================================================================
