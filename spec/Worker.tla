------------------------------- MODULE Worker -------------------------------
(***************************************************************************)
(* _WorkflowCoordinator.__align (src/workflow_coordinator.py) for one task *)
(* on abstract correlation results: primary correlations per (reference,   *)
(* strand), selection of the best peaks, refinement, one candidate per     *)
(* selected peak, choice of the best candidate; every partial operation an *)
(* explicit Abort.  Properties: C07 (never aborts) and the candidate part  *)
(* of C05 (the result is a maximal candidate, at most peaksCount of them). *)
(*                                                                         *)
(* env = [tooLong : set of references longer queries cannot be placed on,  *)
(*        peaks : [ref x strand -> Seq(score)]  primary peaks,              *)
(*        conf : candidate confidence per selected peak (chosen by the      *)
(*               environment: the numerical part is not modelled),          *)
(*        hasPairs : whether that candidate has any aligned pair]           *)
(***************************************************************************)
EXTENDS Integers, Sequences, FiniteSets, TLC

CONSTANTS Refs, PeaksCount, Scores, Confs,
          EmptySelectionAborts     \* TRUE = pinned commit: zip(*[]) raises ValueError when no peak was selected (D2)

VARIABLES prim,      \* Seq of [ref, rev, score] : all primary peaks in the order the code enumerates them
          selected,  \* Seq of indices into prim
          cands,     \* Seq of [peak, conf, hasPairs]
          best,      \* 0 = None, else index into cands
          result,    \* "none" | "row" | "-"
          pc
wvars == <<prim, selected, cands, best, result, pc>>

\* stable top-N by score (sorted(..., reverse=True)[0:count])
TopN(ps, n) ==
    LET m == Len(ps)
        rank(i) == Cardinality({j \in 1..m : ps[j].score > ps[i].score \/ (ps[j].score = ps[i].score /\ j < i)}) + 1
        c == IF n < m THEN n ELSE m
    IN [p \in 1..c |-> CHOOSE i \in 1..m : rank(i) = p]

Select == /\ pc = "select" /\ selected' = TopN(prim, PeaksCount) /\ pc' = "candidates"
          /\ UNCHANGED <<prim, cands, best, result>>
\* zip(*[ ... for each selected peak]) : with no selected peak the unpacking fails
Abort_EmptySelection ==
    /\ pc = "candidates" /\ selected = <<>> /\ EmptySelectionAborts
    /\ pc' = "aborted" /\ UNCHANGED <<prim, selected, cands, best, result>>
NoCandidates ==
    /\ pc = "candidates" /\ selected = <<>> /\ ~EmptySelectionAborts
    /\ result' = "none" /\ pc' = "done" /\ UNCHANGED <<prim, selected, cands, best>>
Candidates ==
    /\ pc = "candidates" /\ selected # <<>>
    /\ \E cf \in [1..Len(selected) -> Confs], hp \in [1..Len(selected) -> BOOLEAN] :
          cands' = [i \in 1..Len(selected) |-> [peak |-> selected[i], conf |-> cf[i], hasPairs |-> hp[i]]]
    /\ pc' = "pick" /\ UNCHANGED <<prim, selected, best, result>>
\* first maximum of confidence; the coordinator drops rows without pairs
PickBest ==
    /\ pc = "pick"
    /\ LET b == CHOOSE i \in 1..Len(cands) : /\ \A j \in 1..Len(cands) : cands[j].conf <= cands[i].conf
                                             /\ \A j \in 1..(i-1) : cands[j].conf < cands[i].conf
       IN best' = b /\ result' = IF cands[b].hasPairs THEN "row" ELSE "none"
    /\ pc' = "done" /\ UNCHANGED <<prim, selected, cands>>
WorkerNext == Select \/ Abort_EmptySelection \/ NoCandidates \/ Candidates \/ PickBest

Inv_C07 == pc # "aborted"
Inv_C05 == pc = "done" /\ result = "row" =>
              /\ Len(cands) <= PeaksCount
              /\ \A j \in 1..Len(cands) : cands[j].conf <= cands[best].conf
              /\ \A i \in 1..Len(selected) : \A j \in 1..Len(prim) :
                    (\A a \in 1..Len(selected) : selected[a] # j) => prim[j].score <= prim[selected[i]].score
=============================================================================
