------------------------------- MODULE Worker -------------------------------
(***************************************************************************)
(* _WorkflowCoordinator.__align (src/workflow_coordinator.py) for one task,*)
(* one action per message the coordinator dispatches (these are the points *)
(* at which an Extension - the diagnostics plotters, the harness recorder - *)
(* observes it):                                                           *)
(*   Correlate      InitialAlignmentMessage, two per reference in the      *)
(*                  order of the reference list: '+' then '-'              *)
(*   Select         PeaksSelector.selectPeaks (no message)                 *)
(*   Refine         CorrelationResultMessage(index), one per selected peak *)
(*   Abort_EmptySelection / NoCandidates   the unpacking of an empty list  *)
(*   Row            AlignmentResultRowMessage(index), one per refinement   *)
(*   Multi          MultipleAlignmentResultRowsMessage (all rows of the    *)
(*                  task, in order)                                        *)
(*   PickBest       __getBestAlignment + the coordinator's filter          *)
(* The numerical content (which peaks, which confidences) is chosen by the *)
(* environment here; Seeding.tla and AlignCore.tla model where it comes    *)
(* from.  Properties: C07 (never aborts), the candidate part of C05 (the   *)
(* result is a maximal candidate, at most peaksCount of them) and the seed *)
(* part of C16 (the refined peaks are the peaksCount highest, descending). *)
(***************************************************************************)
EXTENDS Integers, Sequences, FiniteSets, TLC

CONSTANTS Scores, Confs,
          EmptySelectionAborts     \* TRUE = pinned commit: zip(*[]) raises ValueError when no peak was selected (D2)

VARIABLES par,       \* the task's parameters, fixed: [refs |-> reference ids in the order of the list, pcount |-> peaksCount]
          ci,        \* primary correlations dispatched so far (0 .. 2 * Len(RefSeq))
          prim,      \* Seq of [ref, rev, score, pos] : all primary peaks in the order the code enumerates them
          selected,  \* Seq of indices into prim
          ri,        \* refinements dispatched so far
          cands,     \* Seq of [peak, conf, hasPairs]
          multi,     \* the MultipleAlignmentResultRowsMessage has been dispatched
          best,      \* 0 = None, else index into cands
          result,    \* "none" | "row" | "-"
          pc
wvars == <<par, ci, prim, selected, ri, cands, multi, best, result, pc>>

RefSeq == par.refs
PeaksCount == par.pcount

WInit == /\ ci = 0 /\ prim = <<>> /\ selected = <<>> /\ ri = 0 /\ cands = <<>> /\ multi = FALSE /\ best = 0
         /\ result = "-" /\ pc = "correlate"

\* stable top-N by score (sorted(..., reverse=True)[0:count])
TopN(ps, n) ==
    LET m == Len(ps)
        rank(i) == Cardinality({j \in 1..m : ps[j].score > ps[i].score \/ (ps[j].score = ps[i].score /\ j < i)}) + 1
        c == IF n < m THEN n ELSE m
    IN [p \in 1..c |-> CHOOSE i \in 1..m : rank(i) = p]

NextRef == RefSeq[ci \div 2 + 1]
NextRev == ci % 2 = 1
\* getInitialAlignment on (NextRef, NextRev) found the peaks ps (a sequence of [score, pos]); correlations without a
\* peak are dispatched as well but contribute nothing (`if any(peaks): yield`)
Correlate(ps) ==
    /\ pc = "correlate" /\ ci < 2 * Len(RefSeq)
    /\ prim' = prim \o [j \in 1..Len(ps) |-> [ref |-> NextRef, rev |-> NextRev, score |-> ps[j].score, pos |-> ps[j].pos]]
    /\ ci' = ci + 1 /\ UNCHANGED <<par, selected, ri, cands, multi, best, result, pc>>
Select == /\ pc = "correlate" /\ ci = 2 * Len(RefSeq)
          /\ selected' = TopN(prim, PeaksCount) /\ pc' = "refine"
          /\ UNCHANGED <<par, ci, prim, ri, cands, multi, best, result>>
Refine == /\ pc = "refine" /\ ri < Len(selected) /\ ri' = ri + 1
          /\ UNCHANGED <<par, ci, prim, selected, cands, multi, best, result, pc>>
RefineDone == /\ pc = "refine" /\ ri = Len(selected) /\ pc' = "candidates"
              /\ UNCHANGED <<par, ci, prim, selected, ri, cands, multi, best, result>>
\* zip(*[ ... for each selected peak]) : with no selected peak the unpacking fails
Abort_EmptySelection ==
    /\ pc = "candidates" /\ selected = <<>> /\ EmptySelectionAborts
    /\ pc' = "aborted" /\ UNCHANGED <<par, ci, prim, selected, ri, cands, multi, best, result>>
NoCandidates ==
    /\ pc = "candidates" /\ selected = <<>> /\ ~EmptySelectionAborts
    /\ result' = "none" /\ pc' = "done" /\ UNCHANGED <<par, ci, prim, selected, ri, cands, multi, best>>
Row(cf, hp) ==
    /\ pc = "candidates" /\ selected # <<>> /\ Len(cands) < Len(selected)
    /\ cands' = Append(cands, [peak |-> selected[Len(cands) + 1], conf |-> cf, hasPairs |-> hp])
    /\ UNCHANGED <<par, ci, prim, selected, ri, multi, best, result, pc>>
Multi == /\ pc = "candidates" /\ selected # <<>> /\ Len(cands) = Len(selected)
         /\ multi' = TRUE /\ pc' = "pick" /\ UNCHANGED <<par, ci, prim, selected, ri, cands, best, result>>
\* first maximum of confidence; the coordinator drops rows without pairs
PickBest ==
    /\ pc = "pick"
    /\ LET b == CHOOSE i \in 1..Len(cands) : /\ \A j \in 1..Len(cands) : cands[j].conf <= cands[i].conf
                                             /\ \A j \in 1..(i-1) : cands[j].conf < cands[i].conf
       IN best' = b /\ result' = IF cands[b].hasPairs THEN "row" ELSE "none"
    /\ pc' = "done" /\ UNCHANGED <<par, ci, prim, selected, ri, cands, multi>>
WorkerNext == (\E n \in 0..2 : \E ps \in [1..n -> [score : Scores, pos : {0}]] : Correlate(ps))
              \/ Select \/ Refine \/ RefineDone \/ Abort_EmptySelection \/ NoCandidates
              \/ (\E cf \in Confs, hp \in BOOLEAN : Row(cf, hp)) \/ Multi \/ PickBest

Inv_C07 == pc # "aborted"
Inv_C05 == pc = "done" /\ result = "row" =>
              /\ Len(cands) <= PeaksCount
              /\ \A j \in 1..Len(cands) : cands[j].conf <= cands[best].conf
              /\ \A i \in 1..Len(selected) : \A j \in 1..Len(prim) :
                    (\A a \in 1..Len(selected) : selected[a] # j) => prim[j].score <= prim[selected[i]].score
\* C16, last sentence: the seeds that are refined are the peaksCount highest-scoring primary peaks, in descending order
SeedsAreTheHighest(pr, sel, n) ==
    /\ Len(sel) = (IF n < Len(pr) THEN n ELSE Len(pr))
    /\ \A a, b \in 1..Len(sel) : a < b => sel[a] # sel[b] /\ pr[sel[a]].score >= pr[sel[b]].score
    /\ \A a \in 1..Len(sel) : \A j \in 1..Len(pr) : (\A b \in 1..Len(sel) : sel[b] # j) => pr[j].score <= pr[sel[a]].score
Inv_C16 == pc \in {"refine", "candidates", "pick", "done"} => SeedsAreTheHighest(prim, selected, PeaksCount)
\* the protocol: what has been dispatched so far is consistent with the stage
Inv_Protocol == /\ ri <= Len(selected) /\ Len(cands) <= ri
                /\ (multi => Len(cands) = Len(selected) /\ selected # <<>>)
                /\ (pc = "done" /\ selected # <<>> => multi /\ ri = Len(selected) /\ ci = 2 * Len(RefSeq))
=============================================================================
