------------------------------- MODULE Compare -------------------------------
(***************************************************************************)
(* AlignmentComparer.compare / AlignmentRowComparer.compare /              *)
(* AlignmentComparison.create (src/diagnostic/alignment_comparer.py);      *)
(* property C19.                                                           *)
(* An alignment is [q, r : ids, pairs : Seq(<<r, q>>)].  The identity      *)
(* ratio comes from difflib.SequenceMatcher and is not modelled: it is an  *)
(* observed value in [0,1] (fixed point 10^6) that must be positive        *)
(* exactly when the two pair lists have a pair in common.                  *)
(***************************************************************************)
EXTENDS Geometry, TLC

M == 1000000
Key(a) == <<a.q, a.r>>
Keys(A) == {Key(A[j]) : j \in 1..Len(A)}
SetOf(s) == {s[j] : j \in 1..Len(s)}

\* __toDict: sorted by (referenceId, queryId), later entries override: the LAST alignment of a key wins
SortKey(a) == a.r * 100000 + a.q
DictOf(A) == LET s == StableSortBy(A, SortKey)
             IN [k \in Keys(A) |-> s[CHOOSE j \in 1..Len(s) : Key(s[j]) = k /\ \A i \in (j+1)..Len(s) : Key(s[i]) # k]]
KeyOrder(A) == LET s == StableSortBy(A, SortKey)
                   f[j \in 0..Len(s)] == IF j = 0 THEN <<>>
                                         ELSE IF \E i \in 1..(j-1) : Key(s[i]) = Key(s[j]) THEN f[j-1] ELSE Append(f[j-1], Key(s[j]))
               IN f[Len(s)]

\* __combineMultipleQuerySources: per run of consecutive pairs with the same query label keep those also present
\* in the other list, or the whole run if none is
Combine(ps, other, flag) ==
    IF ~flag THEN ps
    ELSE LET n == Len(ps)
             runStart(j) == j = 1 \/ ps[j-1][2] # ps[j][2]
             runOf(j) == {i \in 1..n : i <= j /\ (\A m \in i..j : ps[m][2] = ps[j][2])} \cup
                         {i \in 1..n : i >= j /\ (\A m \in j..i : ps[m][2] = ps[j][2])}
             keep(j) == ps[j] \in SetOf(other) \/ \A i \in runOf(j) : ps[i] \notin SetOf(other)
         IN FilterSeqIdx(ps, keep)

RowOf(a1, a2, flag) ==
    LET p1 == Combine(a1.pairs, a2.pairs, flag)
        p2 == Combine(a2.pairs, a1.pairs, flag)
        d1 == SetOf(p1) \ SetOf(p2)
        d2 == SetOf(p2) \ SetOf(p1)
    IN [q |-> a1.q, r |-> a1.r, type |-> "BOTH", x1 |-> d1, x2 |-> d2,
        c1 |-> IF Len(p1) > 0 THEN <<Len(p1) - Cardinality(d1), Len(p1)>> ELSE <<1, 1>>,
        c2 |-> IF Len(p2) > 0 THEN <<Len(p2) - Cardinality(d2), Len(p2)>> ELSE <<1, 1>>,
        common |-> SetOf(p1) \cap SetOf(p2) # {},
        bothEmpty |-> p1 = <<>> /\ p2 = <<>>]

CompareImpl(A, B, flag) ==
    LET dA == DictOf(A)  dB == DictOf(B)
        both == FilterSeq(KeyOrder(A), LAMBDA k : k \in Keys(B))
        onlyA == FilterSeq(KeyOrder(A), LAMBDA k : k \notin Keys(B))
        onlyB == FilterSeq(KeyOrder(B), LAMBDA k : k \notin Keys(A))
    IN [rows |-> [j \in 1..Len(both) |-> RowOf(dA[both[j]], dB[both[j]], flag)],
        fo |-> Len(onlyA), so |-> Len(onlyB)]

-----------------------------------------------------------------------------
(* C19 over observations                                                                              *)
(* cmp = [ov, nov, fo, so, c1, c2, idn (x 10^6), rows : Seq([q, r, type, idn, c1, c2, x1, x2 (sequences of pairs)])] *)
InUnit(v) == v >= 0 /\ v <= M
C19_Failed(A, B, ab, ba, aa) ==
    LET KA == Keys(A)  KB == Keys(B)
        rowKeys(c) == [j \in 1..Len(c.rows) |-> <<c.rows[j].q, c.rows[j].r>>]
        nonEmptySelf == {j \in 1..Len(aa.rows) : \E i \in 1..Len(A) : Key(A[i]) = <<aa.rows[j].q, aa.rows[j].r>>}
    IN (IF ab.ov + ab.nov + ab.fo + ab.so = Cardinality(KA \cup KB) THEN {} ELSE {"counts_sum_to_number_of_distinct_keys"})
     \cup (IF ab.fo = Cardinality(KA \ KB) /\ ab.so = Cardinality(KB \ KA) THEN {} ELSE {"only_counts_are_set_differences"})
     \cup (IF SetOf(rowKeys(ab)) = KA \cup KB /\ Len(ab.rows) = Cardinality(KA \cup KB) THEN {} ELSE {"every_key_classified_exactly_once"})
     \cup (IF InUnit(ab.idn) /\ InUnit(ab.c1) /\ InUnit(ab.c2)
              /\ \A j \in 1..Len(ab.rows) : InUnit(ab.rows[j].idn) /\ InUnit(ab.rows[j].c1) /\ InUnit(ab.rows[j].c2)
           THEN {} ELSE {"measures_within_0_1"})
     \cup (IF aa.fo = 0 /\ aa.so = 0
              /\ \A j \in 1..Len(aa.rows) :
                    LET a == DictOf(A)[<<aa.rows[j].q, aa.rows[j].r>>] IN
                    a.pairs # <<>> => /\ aa.rows[j].idn = M /\ aa.rows[j].c1 = M /\ aa.rows[j].c2 = M
                                      /\ aa.rows[j].x1 = <<>> /\ aa.rows[j].x2 = <<>>
           THEN {} ELSE {"self_comparison_identity_1_coverage_1_no_exclusive_pairs"})
     \cup (IF ba.ov = ab.ov /\ ba.nov = ab.nov /\ ba.fo = ab.so /\ ba.so = ab.fo
              /\ AbsV(ba.c1 - ab.c2) <= 1 /\ AbsV(ba.c2 - ab.c1) <= 1
           THEN {} ELSE {"swapping_inputs_swaps_counts_and_coverages"})
=============================================================================
