CONSTANTS
  RefLens = {4, 5, 6}
  RefMax = 8
  QryLens = {3, 4}
  QryMax = 7
  PeakCounts = {3, 4}
  PeakSet <- PeaksThorough
  MaxDSet = {1, 2}
  MsSet = {2, 3}
  BsSet = {2, 4}
  SjSet = {0, 1}
  Scale = 360360
  ReverseNegatesQueryDistance = FALSE
  ComparePolicy = "nearest_with_pairs"
  TrimGuard = FALSE
INIT Init
NEXT Next
INVARIANT GuidedInv
CHECK_DEADLOCK FALSE
