CONSTANTS
  RefLens = {4}
  RefMax = 6
  QryLens = {3}
  QryMax = 4
  PeakCounts = {3}
  PeakSet <- PeaksQuick
  MaxDSet = {1}
  MsSet = {2}
  BsSet = {2}
  SjSet = {1}
  Scale = 360360
  ReverseNegatesQueryDistance = FALSE
  ComparePolicy = "consecutive"
  TrimGuard = FALSE
INIT Init
NEXT Next
INVARIANT Inv_C01
INVARIANT Inv_C04
INVARIANT Inv_C07
INVARIANT Inv_C15
CHECK_DEADLOCK TRUE
