------------------------------- MODULE MC_Cmap -------------------------------
(* (A) every small CMAP file: up to 2 molecules with 0..2 label rows each and one end marker, every order of the  *)
(* rows, every id filter: the reader as modelled satisfies C17 and never aborts.                                   *)
EXTENDS Cmap, Json
CONSTANTS Ids, Coords, Ends, MaxLabels, LabelChans   \* LabelChans: label colours the molecule with the largest id may use
VARIABLE pool   \* rows not yet placed in the file (the file order is chosen row by row)
RowsOf(c, n, xs, e, ch) == {[cid |-> c, chan |-> ch, pos |-> xs[j]] : j \in 1..n} \cup {[cid |-> c, chan |-> 0, pos |-> e]}
ChansOf(c) == IF \A d \in Ids : d <= c THEN LabelChans ELSE {1}
Init == /\ \E S \in SUBSET Ids : \E flt \in SUBSET Ids :
           \E spec \in [S -> {<<n, xs, e, ch>> \in (0..MaxLabels) \X [1..MaxLabels -> Coords] \X Ends \X LabelChans :
                                \A j \in 1..(n-1) : xs[j] <= xs[j+1]}] :
              /\ \A c \in S : spec[c][4] \in ChansOf(c)
              /\ pool = UNION {RowsOf(c, spec[c][1], spec[c][2], spec[c][3], spec[c][4]) : c \in S}
              /\ filter = flt
        /\ rows = <<>> /\ kept = <<>> /\ groups = <<>> /\ gi = 1 /\ maps = <<>> /\ status = "running" /\ pc = "gen"
Place == /\ pc = "gen" /\ pool # {} /\ \E r \in pool : rows' = Append(rows, r) /\ pool' = pool \ {r}
         /\ UNCHANGED <<filter, kept, groups, gi, maps, status, pc>>
Start == /\ pc = "gen" /\ pool = {} /\ pc' = "filter" /\ UNCHANGED <<rows, filter, kept, groups, gi, maps, status, pool>>
Next == Place \/ Start \/ (CmapNext /\ UNCHANGED pool)
Inv_C17 == pc = "done" => C17_Read_Failed(rows, filter, maps) = {}
Inv_NoAbort == status # "aborted"
\* trimming every map read (the model's trim is Geometry!TrimXs / TrimLen)
TrimOf(m) == [len |-> (TrimLen(m.x) - 1) + 10, x |-> TrimXs(m.x)]
Inv_Trim == pc = "done" => \A j \in 1..Len(maps) : C17_Trim_Failed(maps[j], TrimOf(maps[j]), TrimOf(TrimOf(maps[j]))) = {}
ExportInv == pc = "filter" => PrintT("X" \o ToJson([rows |-> rows, filter |-> filter]))
ExportStop == pc \in {"gen", "filter"}
=============================================================================
