---------------------------- MODULE MC_AlignCore ----------------------------
(* (A) exhaustive: Aligner.align as composed from the component models, on every small lattice input,  *)
(* satisfies C01, C04, C15 and never aborts (C07).                                                      *)
EXTENDS AlignCore, Json, IOUtils, FiniteSetsExt

PeaksQuick == 0..3
PeaksThorough == -1..4
CONSTANTS RefLens, RefMax, QryLens, QryMax, PeakCounts, PeakSet, MaxDSet, MsSet, BsSet, SjSet, Scale

VARIABLE gen   \* what the input generator still has to choose

ParOf(d, ms, bs, sj) == [sp |-> 3, dpnum |-> 1, dpden |-> 1, su |-> -1, maxD |-> d, ms |-> ms, bs |-> bs,
                         mnum |-> sj, mden |-> 1, variant |-> 0, scale |-> Scale]

Init == \E d \in MaxDSet, ms \in MsSet, bs \in BsSet, sj \in SjSet, rv \in BOOLEAN :
          /\ ain = [ref |-> <<>>, qry |-> <<0>>, qlen |-> 1, shift |-> 0, rev |-> rv, peaks |-> <<>>,
                    par |-> ParOf(d, ms, bs, sj)]
          /\ gen = "ref" /\ phase = "gen" /\ k = 1 /\ scored = <<>> /\ segsAll = <<>> /\ final = <<>> /\ row = <<>>
          /\ IdleP /\ IdleS /\ IdleC /\ IdleR
Keep == UNCHANGED <<phase, k, scored, segsAll, final, row, pvars, svars, chvars, rvars>>
LastOr(s, d) == IF s = <<>> THEN d ELSE s[Len(s)]
GenRef == /\ phase = "gen" /\ gen = "ref" /\ Len(ain.ref) < Max(RefLens)
          /\ \E x \in (LastOr(ain.ref, -1) + 1)..RefMax : ain' = [ain EXCEPT !.ref = Append(@, x)]
          /\ UNCHANGED gen /\ Keep
GenRefDone == /\ phase = "gen" /\ gen = "ref" /\ Len(ain.ref) \in RefLens /\ gen' = "qry" /\ UNCHANGED ain /\ Keep
GenQry == /\ phase = "gen" /\ gen = "qry" /\ Len(ain.qry) < Max(QryLens)
          /\ \E x \in (LastOr(ain.qry, 0) + 1)..QryMax : ain' = [ain EXCEPT !.qry = Append(@, x), !.qlen = x + 1]
          /\ UNCHANGED gen /\ Keep
GenQryDone == /\ phase = "gen" /\ gen = "qry" /\ Len(ain.qry) \in QryLens /\ gen' = "peaks" /\ UNCHANGED ain /\ Keep
GenPeak == /\ phase = "gen" /\ gen = "peaks" /\ Len(ain.peaks) < Max(PeakCounts)
           /\ \E x \in {y \in PeakSet : y >= LastOr(ain.peaks, -100)} : ain' = [ain EXCEPT !.peaks = Append(@, x)]
           /\ UNCHANGED gen /\ Keep
GenDone == /\ phase = "gen" /\ gen = "peaks" /\ Len(ain.peaks) \in PeakCounts
           /\ gen' = "done" /\ phase' = "startPeak"
           /\ UNCHANGED <<ain, k, scored, segsAll, final, row, pvars, svars, chvars, rvars>>
\* termination (C07): every behaviour reaches done / aborted; anything that gets stuck earlier is a TLC deadlock error
Terminated == (Done \/ phase = "gen") /\ UNCHANGED <<allvars, gen>>   \* (dead ends of the input generator are not system states)
Next == GenRef \/ GenRefDone \/ GenQry \/ GenQryDone \/ GenPeak \/ GenDone \/ (CoreNext /\ UNCHANGED gen) \/ Terminated

RowSegs == [a \in 1..Len(final) |-> [peak |-> final[a].peak, pos |-> final[a].pos]]
Inv_C01 == phase = "done" /\ row.pairs # <<>> =>
              C01_Failed(row.pairs, ain.rev, Len(ain.ref), ain.shift + 1, ain.shift + Len(ain.qry)) = {}
Inv_C04 == phase = "done" => C04_Failed(ain, RowSegs, row.conf) = {}
Inv_C07 == phase # "aborted"
\* C15 on the resolver's own input and output
ResIns == [j \in 1..Len(segsAll) |-> [pos |-> segsAll[j].pos, peak |-> segsAll[j].peak]]
Inv_C15 == phase = "row" /\ Len(segsAll) >= 2 => R!C15_Holds(ResIns, ain.rev, R!Obs(final))

\* reachability probes (vacuity): each is EXPECTED to be violated, which shows that the outcome occurs within the bounds
Reach_DropLeft == r_lastKind # "DropLeft"
Reach_DropRight == r_lastKind # "DropRight"
Reach_MergeMid == r_lastKind # "MergeMid"
Reach_Merge0 == r_lastKind # "Merge0"
Reach_MergeEnd == r_lastKind # "MergeEnd"
Reach_SkipLeft == ~(phase = "resolve" /\ r_i0 < r_i1 - 1 /\ r_i0 >= 1)
\* a left chain member that an earlier resolution cut down to exactly one pair is about to be compared again
Reach_OnePairLeft == ~(/\ phase = "resolve" /\ r_status = "running" /\ r_lastKind \in {"Merge0", "MergeEnd", "MergeMid"}
                       /\ r_i0 >= 1 /\ r_i1 <= Len(r_chain) /\ r_i0 < r_i1
                       /\ Cardinality(R!PairIdx(r_chain[r_i0])) = 1 /\ R!HasPairs(r_chain[r_i1])
                       /\ Len(segsAll[r_chain[r_i0].src].pos) > Len(r_chain[r_i0].pos))
\* model-guided inputs: whenever a behaviour (random walk with large constants) reaches one of the resolver situations that
\* random real inputs rarely reach, its input is printed; the harness runs those inputs through the real aligner
RareSituation ==
    /\ phase = "resolve" /\ r_status = "running"
    /\ \/ ~Reach_OnePairLeft                                   \* a member cut down to one pair is compared again
       \/ r_lastKind = "MergeMid"                              \* a cut strictly inside the overlap
       \/ (r_i0 >= 1 /\ r_i0 < r_i1 - 1)                        \* the comparison skipped an emptied member
ProbeQ == IF (/\ ~Reach_OnePairLeft /\ ain.rev
              /\ Id(R!FirstP(r_chain[r_i1]).r) > Id(R!LastP(r_chain[r_i0]).r)
              /\ Id(R!FirstP(r_chain[r_i1]).q) > Id(R!LastP(r_chain[r_i0]).q))
          THEN PrintT("X" \o ToJson(ain)) ELSE TRUE
GuidedInv == IF RareSituation THEN PrintT("X" \o ToJson(ain)) ELSE TRUE
ExportInv == phase = "startPeak" /\ k = 1 => PrintT("X" \o ToJson(ain))
ExportStop == phase \in {"gen", "startPeak"} /\ k = 1
=============================================================================
