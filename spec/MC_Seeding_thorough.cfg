CONSTANTS
  RefMax = 9
  RefMaxLabels = 6
  QryMax = 4
  ResSet = {1, 2}
  BlurSet = {0, 1}
  MdFactors = {1, 2, 3}
  PCounts = {1, 2}
  TailSet = {0, 2}
INIT Init
NEXT Next
INVARIANT Inv_NoAbort
INVARIANT Inv_Contract
INVARIANT Inv_Empty
INVARIANT Inv_Keep
INVARIANT Inv_Dice
INVARIANT Inv_BestIsSeeded
INVARIANT Inv_ExactLocusSeeded
INVARIANT Inv_Mirror
INVARIANT Inv_Planted
CHECK_DEADLOCK FALSE
