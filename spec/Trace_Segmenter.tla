--------------------------- MODULE Trace_Segmenter ---------------------------
(* (C) batch trace validation for the segment builder.                         *)
(* One NDJSON line per recorded call of the REAL AlignmentSegmentsFactory:      *)
(*    {"in": {"sc": [...], "kd": [...], "ms": m, "bs": b}, "obs": [{"idx": [...], "score": s}, ...]} *)
(* For every line t:                                                            *)
(*   failed = the C13 clauses that are FALSE on the observed result  (decides)  *)
(*   drift  = whether the implementation-shaped state machine, run on the same  *)
(*            input, ends with a different result                    (informs)  *)
EXTENDS Segmenter, Json, IOUtils

Traces == ndJsonDeserialize(IOEnv.TRACE_FILE)

VARIABLE t
tvars == <<svars, t>>

Init == \E k \in 1..Len(Traces) : t = k /\ InitWith(Traces[k]["in"])

Obs == Traces[t].obs

Verdict ==
    LET failed == IF InDomain(inp) THEN C13_Failed(inp, Obs) ELSE {"input_outside_domain"}
        drift  == IF Result = Obs THEN {} ELSE {"result_differs_from_spec"}
    IN  IF failed \cup drift = {} THEN TRUE ELSE PrintT(ToString(<<"V", t, failed, drift>>))

Report == /\ pc = "done" /\ Verdict /\ pc' = "reported" /\ UNCHANGED <<inp, i, start, ext, cur, res, t>>

\* a stuck trace is a TLC deadlock error (machinery failure), never a silent pass
Terminated == pc = "reported" /\ UNCHANGED tvars
Next == (SegNext /\ UNCHANGED t) \/ Report \/ Terminated
=============================================================================
