----------------------------- MODULE MC_Fragments -----------------------------
(* (A) for every query of N labels (distinct coordinates, optional trailing length) and every first-pass row given  *)
(* by its outermost aligned labels on either strand, getUnalignedFragments as modelled never aborts and returns      *)
(* contiguous slices whose label numbers (shift) refer to the whole query.                                           *)
EXTENDS Fragments
CONSTANTS N, Gaps
VARIABLES xs, qlen, row, res, pc
vars == <<xs, qlen, row, res, pc>>
Coords(gs) == LET f[j \in 0..Len(gs)] == IF j = 0 THEN <<0>> ELSE Append(f[j-1], f[j-1][j] + gs[j]) IN f[Len(gs)]
Init == \E gs \in [1..(N-1) -> Gaps], a \in 1..N, rv \in BOOLEAN : \E b \in a..N :
          LET c == Coords(gs)
              L == c[N] + 10            \* trimmed length: last - first + 1 bp, in deci-bp
              fed(q) == IF rv THEN (L - 10) - c[q] ELSE c[q]
              \* '+': first pair has the lowest query label a, last pair the highest b; '-': the other way round
              fq == IF rv THEN b ELSE a
              lq == IF rv THEN a ELSE b
          IN /\ xs = c /\ qlen = L
             /\ row = [qs |-> IF rv THEN fed(lq) ELSE fed(fq), qe |-> IF rv THEN fed(fq) ELSE fed(lq), rev |-> rv,
                       firstQ |-> fq, lastQ |-> lq]
          /\ res = <<>> /\ pc = "run"
Run == pc = "run" /\ res' = FragmentsImpl(xs, qlen, row) /\ pc' = "done" /\ UNCHANGED <<xs, qlen, row>>
Terminated == pc = "done" /\ UNCHANGED vars
Next == Run \/ Terminated
Obs == [j \in 1..Len(res.frags) |-> [x |-> [i \in 1..(IF res.frags[j].hi < res.frags[j].lo THEN 0 ELSE res.frags[j].hi - res.frags[j].lo + 1) |-> xs[res.frags[j].lo + i - 1]],
                                      shift |-> res.frags[j].shift, len |-> qlen]]
Inv_NoAbort == pc = "done" => res.status = "ok"
Inv_Slices == pc = "done" => FragmentClauses(xs, qlen, Obs) = {}
\* the aligned part and the fragments overlap by at most 3 labels, and a fragment never contains the whole aligned part
\* unless the named deviation applies ('-' row whose last pair is the query's last label: the fragment is the whole query)
Inv_FragmentsOutsideAlignment == pc = "done" =>
    \A j \in 1..Len(res.frags) :
        LET lo == res.frags[j].lo  hi == res.frags[j].hi
            a == IF row.rev THEN row.lastQ ELSE row.firstQ
            b == IF row.rev THEN row.firstQ ELSE row.lastQ
        IN hi <= a + (IF row.rev THEN 3 ELSE 2) \/ lo >= b - 2 \/ (row.rev /\ row.qs = 0)   \* ("-" slices by label number, "+" by 0-based index: one more overlap label)
=============================================================================
