CONSTANTS
  MaxLen = 4
  Alphabet <- AlphaA
  MsSet = {3}
  BsSet = {1}
INIT Init
NEXT Next
INVARIANT Inv_ConverseEverywhere
CHECK_DEADLOCK FALSE
