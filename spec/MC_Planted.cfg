CONSTANTS
  NRef = 5
  Gaps = {3, 4, 6}
  WinLens = {3, 4}
  Deltas <- DeltasM
  PeakCounts = {1, 2}
  MaxD = 1
  ReverseNegatesQueryDistance = FALSE
  ComparePolicy = "nearest_with_pairs"
  TrimGuard = FALSE
INIT Init
NEXT Next
INVARIANT Inv_Planted
INVARIANT Inv_Conf
INVARIANT Inv_NoAbort
CHECK_DEADLOCK FALSE
