CONSTANTS
  Scores = {0}
  Confs = {0}
  EmptySelectionAborts = FALSE
INIT Init
NEXT TraceNext
CHECK_DEADLOCK TRUE
