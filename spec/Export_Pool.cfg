CONSTANTS
  Tasks = {1, 2, 3, 4, 5, 6}
  Workers = {1, 2, 3}
  Calls <- CallsFn
  Ship = "per_task"
INIT InitFull
NEXT Next
INVARIANT ExportInv
CHECK_DEADLOCK FALSE
