CONSTANTS
  ComparePolicy = "nearest_with_pairs"
  TrimGuard = FALSE
INIT Init
NEXT Next
CHECK_DEADLOCK TRUE
