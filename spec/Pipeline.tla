------------------------------ MODULE Pipeline ------------------------------
(***************************************************************************)
(* The multi-pass work flow above the aligner                              *)
(*   _MultiPassWorkflowCoordinator.execute, AlignmentResults.filterOut-    *)
(*   SubsequentAlignmentsForSingleQuery / resolve, Program.run             *)
(* (src/multi_pass_workflow_coordinator.py, alignment_results.py,          *)
(*  program.py) on abstract alignment rows, one action per stage, and the  *)
(* file-level properties C05 and C08.                                      *)
(*                                                                         *)
(* row = [q, r : ids, ori : "+"|"-", conf : Int (1/100), rs, re : Int,     *)
(*        rest : BOOLEAN (second pass), pairs : Seq(<<r, q>>)]             *)
(* A file is a sequence of rows (records).                                 *)
(***************************************************************************)
EXTENDS Geometry, TLC

-----------------------------------------------------------------------------
(* Impl: the stages as operators on sequences of rows *)

\* filterOutSubsequentAlignmentsForSingleQuery: stable sort by confidence (descending), then stable by query id,
\* first of every group
NegConf(x) == 0 - x.conf
QId(x) == x.q
RId(x) == x.r
Filter(rows) ==
    LET s == StableSortBy(StableSortBy(rows, NegConf), QId)
        f[j \in 0..Len(s)] == IF j = 0 THEN <<>>
                              ELSE IF j > 1 /\ s[j-1].q = s[j].q THEN f[j-1] ELSE Append(f[j-1], s[j])
    IN f[Len(s)]

\* check_overlap
Overlap(a, b, maxDiff) ==
    /\ a.ori = b.ori /\ a.r = b.r
    /\ AbsV(MaxV(a.rs, b.rs) - MinV(a.re, b.re)) <= maxDiff

\* AlignmentResults.resolve: groups by reference then query; JoinOf(a, b) is the joined row or NoRow
NoRow == [q |-> 0]
Resolve(rows, maxDiff, JoinOf(_, _)) ==
    LET byRef == StableSortBy(rows, RId)                                  \* sorted by reference id (stable)
        refs == {byRef[j].r : j \in 1..Len(byRef)}
        \* per reference: stable sort by query id
        groupRows(rid) == StableSortBy(FilterSeq(byRef, LAMBDA x : x.r = rid), QId)
        RECURSIVE Walk(_, _, _)
        Walk(g, jn, sp) ==      \* g: remaining rows of one reference (sorted by q)
            IF g = <<>> THEN [joined |-> jn, separate |-> sp]
            ELSE LET qid == g[1].q
                     n == Cardinality({j \in 1..Len(g) : g[j].q = qid})
                     grp == SubSeq(g, 1, n)
                     rest == SubSeq(g, n + 1, Len(g))
                 IN IF n = 1 THEN Walk(rest, jn, Append(sp, grp[1]))
                    ELSE IF Overlap(grp[1], grp[2], maxDiff) /\ JoinOf(grp[1], grp[2]) # NoRow
                    THEN Walk(rest, Append(jn, JoinOf(grp[1], grp[2])), sp)
                    ELSE Walk(rest, jn, sp \o grp)
        RECURSIVE OverRefs(_, _, _)
        OverRefs(rs, jn, sp) ==
            IF rs = {} THEN [joined |-> jn, separate |-> sp]
            ELSE LET rid == CHOOSE x \in rs : \A y \in rs : x <= y
                     w == Walk(groupRows(rid), jn, sp)
                 IN OverRefs(rs \ {rid}, w.joined, w.separate)
    IN OverRefs(refs, <<>>, <<>>)

\* what each mode writes: [main, f1, f2] (f1/f2 = <<>> when the mode has no such file; see HasFile)
Emit(mode, first, second, maxDiff, JoinOf(_, _)) ==
    LET rows1 == IF mode = "best" THEN first \o second ELSE first     \* named deviation EmitBest_UsesBothPasses
        ff1 == Filter(rows1)
        ff2 == Filter(second)
        res == Resolve(ff1 \o ff2, maxDiff, JoinOf)
        joinedIds == {res.joined[j].q : j \in 1..Len(res.joined)}
    IN CASE mode = "separate" -> [main |-> Filter(ff1), f1 |-> ff2, f2 |-> <<>>]
         [] mode = "best" -> [main |-> Filter(StableSortBy(res.joined \o FilterSeq(ff1, LAMBDA x : x.q \notin joinedIds), QId)),
                              f1 |-> <<>>, f2 |-> <<>>]
         [] mode = "joined" -> [main |-> Filter(res.joined), f1 |-> res.separate, f2 |-> <<>>]
         [] mode = "all" -> [main |-> Filter(res.joined), f1 |-> ff1, f2 |-> ff2]

-----------------------------------------------------------------------------
(* C05 on one file *)
C05_File_Failed(file, isMain) ==
    (IF \A i, j \in 1..Len(file) : i # j => file[i].q # file[j].q THEN {} ELSE {"at_most_one_record_per_query"})
    \cup (IF isMain => \A j \in 1..(Len(file)-1) : file[j].q < file[j+1].q THEN {} ELSE {"ascending_query_id"})

\* first-pass record vs the candidates of its query (cands : Seq([r, ori, conf, pairs]) of that query's first-pass task)
\* conf of candidates is exact (1/100 units may carry fractions: given as 1/10000); written value has 2 decimals
C05_Best_Failed(rec, cands, peaksCount) ==
    LET m == CHOOSE x \in {cands[j].conf : j \in 1..Len(cands)} : \A j \in 1..Len(cands) : cands[j].conf <= x
    IN (IF Len(cands) <= peaksCount THEN {} ELSE {"at_most_peaksCount_candidates"})
     \cup (IF Len(cands) >= 1 /\ AbsV(rec.conf * 100 - m) <= 51 THEN {} ELSE {"confidence_is_the_maximum_over_candidates"})
     \cup (IF \E j \in 1..Len(cands) : /\ AbsV(cands[j].conf - m) <= 1
                                       /\ cands[j].r = rec.r /\ cands[j].ori = rec.ori /\ cands[j].pairs = rec.pairs
           THEN {} ELSE {"record_is_a_maximal_candidate"})

\* best mode: every query that has any alignment gets exactly one record
C05_BestMode_Failed(bestMain, firstPassFile) ==
    (IF {bestMain[j].q : j \in 1..Len(bestMain)} = {firstPassFile[j].q : j \in 1..Len(firstPassFile)}
     THEN {} ELSE {"best_mode_one_record_for_every_aligned_query"})

\* best mode keeps "the best-scoring candidate": a query without a joined record (none in the main file of 'all') gets
\* a record at least as confident as each of its first-pass / second-pass records (files _1 / _2 of 'all')
C05_BestOfPasses_Failed(bestMain, allMain, allF1, allF2) ==
    LET joinedIds == {allMain[j].q : j \in 1..Len(allMain)}
        passRecs(q) == {x \in SeqToSet(allF1) \cup SeqToSet(allF2) : x.q = q}
    IN IF \A j \in 1..Len(bestMain) :
             bestMain[j].q \in joinedIds \/ \A x \in passRecs(bestMain[j].q) : x.conf <= bestMain[j].conf
       THEN {} ELSE {"best_mode_record_is_the_most_confident_of_the_passes"}

-----------------------------------------------------------------------------
(* C08 over the four runs on one input: files as sequences of rows (text fields) *)
SameRecord(a, b) == /\ a.q = b.q /\ a.r = b.r /\ a.ori = b.ori /\ a.conf = b.conf /\ a.rs = b.rs /\ a.re = b.re
                    /\ a.pairs = b.pairs /\ a.rest = b.rest /\ a.qs = b.qs /\ a.qe = b.qe /\ a.hit = b.hit
SameFile(f, g) == Len(f) = Len(g) /\ \A j \in 1..Len(f) : SameRecord(f[j], g[j])
\* 'best' hands a second-pass row that outscores the first-pass row to the resolver TWICE (named deviation
\* EmitBest_UsesBothPasses): joined with itself it comes back as the same record with AlignedRest False, or the join is
\* refused and it keeps AlignedRest True - the comparison of the 'best' file with the model leaves that flag out
SameFileButRest(f, g) == Len(f) = Len(g) /\ \A j \in 1..Len(f) : SameRecord([f[j] EXCEPT !.rest = ""], [g[j] EXCEPT !.rest = ""])
PairSet(x) == {x.pairs[j] : j \in 1..Len(x.pairs)}
ValidUnion(S, reverse) ==       \* a set of <<r, q>> pairs that is a one-to-one, collinear matching
    \A a, b \in S : a # b => /\ a[1] # b[1] /\ a[2] # b[2]
                             /\ (a[1] < b[1]) = (IF reverse THEN a[2] > b[2] ELSE a[2] < b[2])

C08_Failed(runs, maxDiff) ==
    LET allm == runs.all.main  all1 == runs.all.f1  all2 == runs.all.f2
        partsOf(J) == {<<F, S>> \in SeqToSet(all1) \X SeqToSet(all2) :
                          /\ F.q = J.q /\ S.q = J.q /\ F.r = J.r /\ S.r = J.r /\ F.ori = J.ori /\ S.ori = J.ori}
        single == SeqToSet(all1) \cup SeqToSet(all2)
        unjoined == SeqToSet(runs.joined.f1)
        contributes(x, J) == x.q = J.q /\ x.r = J.r /\ x.ori = J.ori
    IN (IF SameFile(allm, runs.joined.main) THEN {} ELSE {"all_main_equals_joined_main"})
     \cup (IF SameFile(all1, runs.separate.main) THEN {} ELSE {"all_1_equals_separate_main"})
     \cup (IF SameFile(all2, runs.separate.f1) THEN {} ELSE {"all_2_equals_separate_1"})
     \cup (IF (\A j \in 1..Len(all1) : all1[j].rest = "False") /\ (\A j \in 1..Len(all2) : all2[j].rest = "True")
           THEN {} ELSE {"AlignedRest_False_in_1_True_in_2"})
     \cup (IF \A x \in single :
                 LET inUn == \E y \in unjoined : SameRecord(x, y)
                     js == {j \in 1..Len(allm) : contributes(x, allm[j])}
                 IN (inUn /\ js = {}) \/ (~inUn /\ Cardinality(js) = 1)
           THEN {} ELSE {"single_pass_record_unjoined_xor_part_of_one_joined"})
     \cup (IF /\ \A i, j \in 1..Len(runs.joined.f1) : i < j => ~SameRecord(runs.joined.f1[i], runs.joined.f1[j])
              /\ \A y \in unjoined : \E x \in single : SameRecord(x, y)
           THEN {} ELSE {"unjoined_records_are_single_pass_records_each_listed_once"})
     \cup (IF \A j \in 1..Len(allm) : partsOf(allm[j]) # {} THEN {} ELSE {"joined_record_has_first_and_second_pass_part"})
     \cup (IF \A j \in 1..Len(allm) : \A fs \in partsOf(allm[j]) :
                 MaxV(fs[1].rs, fs[2].rs) - MinV(fs[1].re, fs[2].re) <= maxDiff * 10
           THEN {} ELSE {"reference_gap_at_most_maxDifference"})
     \cup (IF \A j \in 1..Len(allm) : \A fs \in partsOf(allm[j]) :
                 PairSet(allm[j]) \subseteq (PairSet(fs[1]) \cup PairSet(fs[2]))
           THEN {} ELSE {"joined_pairs_subset_of_union_of_parts"})
     \cup (IF \A j \in 1..Len(allm) : \A fs \in partsOf(allm[j]) :
                 ValidUnion(PairSet(fs[1]) \cup PairSet(fs[2]), allm[j].ori = "-")
                    => PairSet(allm[j]) = PairSet(fs[1]) \cup PairSet(fs[2])
           THEN {} ELSE {"joined_is_exactly_the_union_when_union_is_valid"})
=============================================================================
