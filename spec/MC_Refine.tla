----------------------------- MODULE MC_Refine -----------------------------
(* (A) the refinement machine of Seeding.tla on small maps: every reference of <= RefMaxLabels labels on 0..RefMax,  *)
(* every trimmed query on 0..QryMax, seeds at every position of the grid, margins, thresholds, both strands.         *)
EXTENDS Seeding, Json, IOUtils

CONSTANTS RefMax, RefMaxLabels, QryMax, ResSet, BlurSet, PeakSet, MarginFactors, PtSet

Init == \E r \in ResSet, b \in BlurSet, pk \in PeakSet, mf \in MarginFactors, th \in PtSet, rv \in BOOLEAN :
           /\ inp = [ref |-> [len |-> 0, pos |-> <<>>], qry |-> [len |-> 1, pos |-> <<0>>],
                     rev |-> rv, res |-> r, blur |-> b, peak |-> pk, margin |-> mf * r, pt |-> th, pcount |-> 10,
                     md |-> r]
           /\ rs = <<>> /\ qs = <<>> /\ x = <<>> /\ cand = {} /\ done = {} /\ peaks = {} /\ empty = FALSE
           /\ pc = "genr"
GenRef == /\ pc = "genr" /\ Len(inp.ref.pos) < RefMaxLabels
          /\ \E p \in (IF inp.ref.pos = <<>> THEN 0 ELSE LastOf(inp.ref.pos) + 1)..RefMax :
                inp' = [inp EXCEPT !.ref.pos = Append(@, p)]
          /\ UNCHANGED <<rs, qs, x, cand, done, peaks, empty, pc>>
GenRefDone == /\ pc = "genr" /\ Len(inp.ref.pos) >= 1
              /\ inp' = [inp EXCEPT !.ref.len = LastOf(inp.ref.pos) + 1]
              /\ pc' = "genq" /\ UNCHANGED <<rs, qs, x, cand, done, peaks, empty>>
GenQry == /\ pc = "genq"
          /\ \E p \in (LastOf(inp.qry.pos) + 1)..QryMax :
                inp' = [inp EXCEPT !.qry.pos = Append(@, p), !.qry.len = p + 1]
          /\ UNCHANGED <<rs, qs, x, cand, done, peaks, empty, pc>>
GenQryDone == pc = "genq" /\ pc' = "rstart" /\ UNCHANGED <<inp, rs, qs, x, cand, done, peaks, empty>>
Next == GenRef \/ GenRefDone \/ GenQry \/ GenQryDone \/ RefineNext

\* vacuity guard, expected to FAIL: some behaviour ends with a refined peak
Inv_ProbeNoRefinedPeak == pc = "done" => peaks = {}

ExportInv == pc = "rstart" => PrintT("X" \o ToJson(inp))
ExportStop == pc \in {"genr", "genq", "rstart"}
=============================================================================
