CONSTANTS
  C = 3
  Off = 1
  MaxSegs = 3
  Scores = {2}
  Variants = {0, 1}
  Mults <- MultsOne
  Scale = 55440
  ReverseNegatesQueryDistance = TRUE
INIT Init
NEXT Next
INVARIANT Inv_C14
CHECK_DEADLOCK FALSE
