CONSTANTS
  LastRunNeedsTwoOps = FALSE
INIT Init
NEXT Next
CHECK_DEADLOCK TRUE
