------------------------------ MODULE Resolver ------------------------------
(***************************************************************************)
(* Conflict resolution among the chained segments of one alignment:        *)
(*   AlignmentSegmentConflictResolver.__pairAndResolveConflicts            *)
(*   AlignmentSegment.checkForConflicts / endOverlapsWithStartOf / slice   *)
(*   _SegmentPairWithConflict.resolveConflict, __sub__                     *)
(* (src/alignment/segment_with_resolved_conflicts.py, segments.py,         *)
(*  alignment_position.py), one action per pair comparison, every partial  *)
(* operation an explicit Abort; and property C15.                          *)
(*                                                                         *)
(* position = [k |-> "P"|"R"|"Q", r, q : label <<id, x>>, sh, sc : Int]    *)
(* segment  = [pos : Seq(position), ix : Seq(Nat), src : Nat, peak : Int]  *)
(*   ix[j] = index of pos[j] in the position list of input segment src     *)
(*   (the code removes positions by object identity; ix is that identity)  *)
(***************************************************************************)
EXTENDS Geometry, TLC

CONSTANTS ComparePolicy,      \* "consecutive" (pinned commit, deviation D4) | "nearest_with_pairs" (repaired)
          TrimGuard           \* FALSE = pinned __trimNotAlignedPositionsFromEnd (IndexError when emptied, D8)

NullPos == [k |-> "N", r |-> NullLabel, q |-> NullLabel, sh |-> 0, sc |-> 0]
IsPair(p) == p.k = "P"

SumSc(ps) == LET f[j \in 0..Len(ps)] == IF j = 0 THEN 0 ELSE f[j-1] + ps[j].sc IN f[Len(ps)]
Score(S) == SumSc(S.pos)
IsEmpty(S) == S.pos = <<>>
PairIdx(S) == {j \in 1..Len(S.pos) : IsPair(S.pos[j])}
HasPairs(S) == PairIdx(S) # {}
\* startPosition / endPosition; a non-empty segment without pairs has none (IndexError in the code)
Broken(S) == ~IsEmpty(S) /\ ~HasPairs(S)
FirstP(S) == IF IsEmpty(S) THEN NullPos ELSE S.pos[CHOOSE j \in PairIdx(S) : \A i \in PairIdx(S) : j <= i]
LastP(S)  == IF IsEmpty(S) THEN NullPos ELSE S.pos[CHOOSE j \in PairIdx(S) : \A i \in PairIdx(S) : j >= i]

LtBoth(p, a) == CASE p.k = "P" -> X(p.q) < X(a.q) /\ X(p.r) < X(a.r)
                  [] p.k = "Q" -> X(p.q) < X(a.q)
                  [] p.k = "R" -> X(p.r) < X(a.r)
                  [] OTHER -> FALSE
LeAny(p, a) == CASE p.k = "P" -> X(p.q) < X(a.q) \/ X(p.r) < X(a.r) \/ p.q = a.q \/ p.r = a.r
                 [] p.k = "Q" -> X(p.q) <= X(a.q)
                 [] p.k = "R" -> X(p.r) <= X(a.r)
                 [] OTHER -> FALSE

\* endOverlapsWithStartOf (the third disjunct is true for any two ordered disjoint segments: the
\* conflict path is the normal path and yields empty sub-segments there)
Overlaps(L, R) == \/ LeAny(FirstP(R), FirstP(L)) \/ LeAny(FirstP(R), LastP(L)) \/ LeAny(LastP(L), LastP(R))

\* slice(S, s, e) as an index range lo..hi into S.pos (hi < lo: empty); abort models the IndexError of D8
SliceOf(S, s, e) ==
    LET n  == Len(S.pos)
        d  == IF \E j \in 1..n : ~LtBoth(S.pos[j], s)
              THEN (CHOOSE j \in 1..n : ~LtBoth(S.pos[j], s) /\ \A i \in 1..(j-1) : LtBoth(S.pos[i], s)) - 1
              ELSE n
        keep(j) == ~IsPair(S.pos[j]) \/ LeAny(S.pos[j], e)
        tk == IF \E j \in (d+1)..n : ~keep(j)
              THEN (CHOOSE j \in (d+1)..n : ~keep(j) /\ \A i \in (d+1)..(j-1) : keep(i)) - 1
              ELSE n
        \* pop from the end while the last element is unpaired and not LeAny(., e)
        poppable(j) == ~IsPair(S.pos[j]) /\ ~LeAny(S.pos[j], e)
        hi == IF \E j \in (d+1)..tk : ~poppable(j)
              THEN CHOOSE j \in (d+1)..tk : ~poppable(j) /\ \A i \in (j+1)..tk : poppable(i)
              ELSE d
    IN [lo |-> d + 1, hi |-> hi, abort |-> (tk > d /\ hi = d /\ ~TrimGuard)]

SubSeg(S, lo, hi) == [pos |-> SubSeq(S.pos, lo, hi), ix |-> SubSeq(S.ix, lo, hi), src |-> S.src, peak |-> S.peak]
\* S - (positions lo..hi of S)
Minus(S, lo, hi) ==
    IF hi < lo THEN S
    ELSE [S EXCEPT !.pos = SubSeq(S.pos, 1, lo - 1) \o SubSeq(S.pos, hi + 1, Len(S.pos)),
                   !.ix  = SubSeq(S.ix, 1, lo - 1) \o SubSeq(S.ix, hi + 1, Len(S.ix))]

\* getReferenceLabels / getQueryLabels of a sub-segment: <<scores, indexes (1-based into sub.pos)>>
Labels(ps, side) ==
    LET own(p)   == IsPair(p) \/ p.k = side
        f[j \in 0..Len(ps)] ==
           IF j = 0 THEN [sc |-> <<>>, ix |-> <<>>, pend |-> 0]
           ELSE LET g == f[j-1] IN
                IF own(ps[j]) THEN [sc |-> Append(g.sc, ps[j].sc + g.pend), ix |-> Append(g.ix, j), pend |-> 0]
                ELSE [g EXCEPT !.pend = g.pend + ps[j].sc]
    IN f[Len(ps)]

SumInt(s) == LET f[j \in 0..Len(s)] == IF j = 0 THEN 0 ELSE f[j-1] + s[j] IN f[Len(s)]
\* first argmax over i in 0..n of  sum_{k<=i} l[k] + sum_{k>i} r[k]
MergeIndex(ls, rs) ==
    LET n == Len(ls)
        tot(i) == SumInt(SubSeq(ls, 1, i)) + SumInt(SubSeq(rs, i + 1, n))
    IN CHOOSE i \in 0..n : (\A k \in 0..n : tot(i) >= tot(k)) /\ (\A k \in 0..(i-1) : tot(k) < tot(i))

\* outcome of L.checkForConflicts(R).resolveConflict(): [kind, L, R]
ResolvePair(L, R) ==
    IF IsEmpty(L) THEN [kind |-> "NoConflict_LeftEmpty", L |-> L, R |-> R]
    ELSE IF Broken(L) \/ Broken(R) THEN [kind |-> "Abort_NoAlignedPosition", L |-> L, R |-> R]
    ELSE IF ~Overlaps(L, R) THEN [kind |-> "NoConflict", L |-> L, R |-> R]
    ELSE
    LET cs == FirstP(R)
        ce == LastP(L)
        sl == SliceOf(L, cs, ce)
        sr == SliceOf(R, cs, ce)
    IN IF sl.abort \/ sr.abort THEN [kind |-> "Abort_TrimEmptied", L |-> L, R |-> R]
       ELSE
       LET lsub == SubSeg(L, sl.lo, sl.hi)
           rsub == SubSeg(R, sr.lo, sr.hi)
           side == IF lsub.peak > rsub.peak THEN "R" ELSE "Q"
           ll   == Labels(lsub.pos, side)
           rl   == Labels(rsub.pos, side)
           n    == Len(ll.sc)
       IN IF n = Len(rl.sc)
          THEN LET m == MergeIndex(ll.sc, rl.sc) IN
               IF m = 0 THEN [kind |-> "Merge0", L |-> Minus(L, sl.lo, sl.hi), R |-> R]
               ELSE IF m = n THEN [kind |-> "MergeEnd", L |-> L, R |-> Minus(R, sr.lo, sr.hi)]
               ELSE [kind |-> "MergeMid",
                     L |-> Minus(L, sl.lo + ll.ix[m+1] - 1, sl.hi),
                     R |-> Minus(R, sr.lo, sr.lo + rl.ix[m+1] - 2)]
          ELSE IF Score(lsub) > Score(rsub)
               THEN [kind |-> "DropRight", L |-> L, R |-> Minus(R, sr.lo, sr.hi)]
               ELSE [kind |-> "DropLeft", L |-> Minus(L, sl.lo, sl.hi), R |-> R]

-----------------------------------------------------------------------------
(* The pass over the chained list *)
VARIABLES chain,   \* Seq(segment): the chained list, updated in place
          i1, i0,  \* right / left index of the pair being compared
          lastKind,\* outcome kind of the last comparison (for coverage / traces)
          status   \* "running" | "done" | "aborted"
resvars == <<chain, i1, i0, lastKind, status>>

InitWith(ch) ==
    /\ chain = ch /\ lastKind = "" /\ i1 = 2 /\ i0 = 1
    /\ status = IF Len(ch) < 2 THEN "done" ELSE "running"
StartWith(ch) ==
    /\ chain' = ch /\ lastKind' = "" /\ i1' = 2 /\ i0' = 1
    /\ status' = IF Len(ch) < 2 THEN "done" ELSE "running"

Apply(res) ==
    /\ lastKind' = res.kind
    /\ IF res.kind \in {"Abort_NoAlignedPosition", "Abort_TrimEmptied"}
       THEN status' = "aborted" /\ UNCHANGED <<chain, i1, i0>>
       ELSE chain' = [chain EXCEPT ![i0] = res.L, ![i1] = res.R]

\* pinned commit: consecutive indices only
StepConsecutive ==
    /\ ComparePolicy = "consecutive" /\ status = "running"
    /\ Apply(ResolvePair(chain[i0], chain[i1]))
    /\ IF ResolvePair(chain[i0], chain[i1]).kind \in {"Abort_NoAlignedPosition", "Abort_TrimEmptied"} THEN TRUE
       ELSE IF i1 < Len(chain) THEN i0' = i1 /\ i1' = i1 + 1 /\ status' = "running"
       ELSE status' = "done" /\ UNCHANGED <<i0, i1>>

\* repaired: the right segment is compared with its nearest predecessor that still has aligned pairs;
\* when that predecessor loses all its pairs the search continues further left
NextRight == IF i1 < Len(chain) THEN i1' = i1 + 1 /\ i0' = i1 /\ status' = "running"
             ELSE status' = "done" /\ UNCHANGED <<i0, i1>>
StepSkipLeft ==      \* left candidate has no aligned pair: look further left
    /\ ComparePolicy = "nearest_with_pairs" /\ status = "running"
    /\ i0 >= 1 /\ HasPairs(chain[i1]) /\ ~HasPairs(chain[i0])
    /\ i0' = i0 - 1 /\ UNCHANGED <<chain, i1, lastKind, status>>
StepRightDone ==     \* nothing (more) to compare the right segment with
    /\ ComparePolicy = "nearest_with_pairs" /\ status = "running"
    /\ (i0 = 0 \/ ~HasPairs(chain[i1]))
    /\ NextRight /\ UNCHANGED <<chain, lastKind>>
StepCompare ==
    /\ ComparePolicy = "nearest_with_pairs" /\ status = "running"
    /\ i0 >= 1 /\ HasPairs(chain[i1]) /\ HasPairs(chain[i0])
    /\ LET res == ResolvePair(chain[i0], chain[i1]) IN
       /\ Apply(res)
       /\ IF res.kind \in {"Abort_NoAlignedPosition", "Abort_TrimEmptied"} THEN TRUE
          ELSE IF HasPairs(res.L) THEN NextRight
          ELSE i0' = i0 - 1 /\ UNCHANGED <<i1, status>>

ResNext == StepConsecutive \/ StepSkipLeft \/ StepRightDone \/ StepCompare
Done == status \in {"done", "aborted"}

\* observation format of a segment list: [src, ix, score]
Obs(ch) == [j \in 1..Len(ch) |-> [src |-> ch[j].src, isrc |-> IF ch[j].ix = <<>> THEN 0 ELSE ch[j].src,
                                   ix |-> ch[j].ix, score |-> Score(ch[j])]]

-----------------------------------------------------------------------------
(* C15 over (input segments ins : Seq([pos, peak]), strand rev, observed output segments obs) *)
(* obs[j] = [src  : the chain member at this place (index into ins; the pass works in place),   *)
(*          isrc : the input segment the positions really come from by object identity (0: mixed / foreign), *)
(*          ix, score]                                                                           *)
InPairs(ins, o) == {ins[o.src].pos[o.ix[j]] : j \in {j \in 1..Len(o.ix) : IsPair(ins[o.src].pos[o.ix[j]])}}
FirstIn(S) == S.pos[CHOOSE j \in 1..Len(S.pos) : IsPair(S.pos[j]) /\ \A i \in 1..(j-1) : ~IsPair(S.pos[i])]
LastIn(S)  == S.pos[CHOOSE j \in 1..Len(S.pos) : IsPair(S.pos[j]) /\ \A i \in (j+1)..Len(S.pos) : ~IsPair(S.pos[i])]

C15_Failed(ins, rev, obs) ==
    LET n  == Len(obs)
        wf(o) == /\ o.src \in 1..Len(ins) /\ o.isrc = o.src
                 /\ \A j \in 1..Len(o.ix) : o.ix[j] \in 1..Len(ins[o.src].pos)
        allwf == \A j \in 1..n : obs[j].ix = <<>> \/ wf(obs[j])
        NE == {j \in 1..n : obs[j].ix # <<>>}
        \* chain members whose INPUT segment has a pair (also those that were emptied by the pass)
        CM == {j \in 1..n : obs[j].src \in 1..Len(ins) /\ \E a \in 1..Len(ins[obs[j].src].pos) : IsPair(ins[obs[j].src].pos[a])}
    IN IF ~allwf THEN {"positions_come_from_one_input_segment"}
       ELSE
         (IF \A j \in NE : \A a \in 1..(Len(obs[j].ix)-1) : obs[j].ix[a+1] = obs[j].ix[a] + 1
          THEN {} ELSE {"contiguous_sub_run"})
    \cup (IF \A j \in NE : obs[j].score = SumSc([a \in 1..Len(obs[j].ix) |-> ins[obs[j].src].pos[obs[j].ix[a]]])
          THEN {} ELSE {"score_is_sum_of_what_is_left"})
    \cup (IF \A j \in 1..n : obs[j].ix = <<>> => obs[j].score = 0 THEN {} ELSE {"empty_segment_scores_zero"})
    \cup (IF \A a, b \in NE : a # b => obs[a].src # obs[b].src THEN {} ELSE {"one_output_per_input_segment"})
    \cup (IF \A a, b \in NE : a # b =>
                \A p \in InPairs(ins, obs[a]) : \A p2 \in InPairs(ins, obs[b]) : Id(p.r) # Id(p2.r)
          THEN {} ELSE {"no_shared_reference_label"})
    \cup (IF \A a, b \in NE : a # b =>
                \A p \in InPairs(ins, obs[a]) : \A p2 \in InPairs(ins, obs[b]) : Id(p.q) # Id(p2.q)
          THEN {} ELSE {"no_shared_query_label"})
    \cup (IF \A a, b \in NE : a # b =>
                \A p \in InPairs(ins, obs[a]) : \A p2 \in InPairs(ins, obs[b]) :
                    Id(p.r) < Id(p2.r) => (IF rev THEN Id(p.q) >= Id(p2.q) ELSE Id(p.q) <= Id(p2.q))
          THEN {} ELSE {"segments_do_not_cross"})
    \cup (IF \A a \in NE :
                LET S == ins[obs[a].src] IN
                \A j \in 1..Len(S.pos) :
                   (/\ IsPair(S.pos[j])
                    /\ \A b \in CM : b > a => LET f == FirstIn(ins[obs[b].src]) IN
                                              X(S.pos[j].r) < X(f.r) /\ X(S.pos[j].q) < X(f.q)
                    /\ \A b \in CM : b < a => LET l == LastIn(ins[obs[b].src]) IN
                                              X(S.pos[j].r) > X(l.r) /\ X(S.pos[j].q) > X(l.q))
                   => \E c \in 1..Len(obs[a].ix) : obs[a].ix[c] = j
          THEN {} ELSE {"pairs_outside_the_overlap_are_kept"})
C15_Holds(ins, rev, obs) == C15_Failed(ins, rev, obs) = {}
=============================================================================
