----------------------------- MODULE MC_Planted -----------------------------
(* (A) the discrete lemma behind C06: if the labels of the query are an exact copy of a window of the reference,   *)
(* label spacing exceeds 2*maxD, and every seed peak lies within maxD of the true diagonal, then the alignment      *)
(* built by the composed Aligner.align model is exactly the true label-to-label matching (both strands), with      *)
(* confidence n*sp - dp*sum|offset| when there is one seed.  The seeds themselves come from the numerical          *)
(* cross-correlation, which is not modelled (environment action with this contract, DESIGN.md section 6).          *)
EXTENDS AlignCore, FiniteSetsExt

DeltasM == {-1, 0, 1}
CONSTANTS NRef, Gaps, WinLens, Deltas, PeakCounts, MaxD

VARIABLES w0, truthPairs

ParOf == [sp |-> 5, dpnum |-> 1, dpden |-> 1, su |-> -1, maxD |-> MaxD, ms |-> 5, bs |-> 6,
          mnum |-> 1, mden |-> 1, variant |-> 0, scale |-> 360360]
RefFrom(gs) == LET f[j \in 0..Len(gs)] == IF j = 0 THEN <<2>> ELSE Append(f[j-1], f[j-1][j] + gs[j]) IN f[Len(gs)]
Init == \E gs \in [1..(NRef-1) -> Gaps], wl \in WinLens, rv \in BOOLEAN, np \in PeakCounts :
        \E s \in 1..(NRef - wl + 1), ds \in [1..np -> Deltas] :
          LET ref == RefFrom(gs)
              fwd == [j \in 1..wl |-> ref[s + j - 1] - ref[s]]          \* trimmed copy of the window
              L   == fwd[wl]
              stored == IF rv THEN [j \in 1..wl |-> L - fwd[wl + 1 - j]] ELSE fwd   \* molecule given mirrored
          IN /\ ain = [ref |-> ref, qry |-> stored, qlen |-> L + 1, shift |-> 0, rev |-> rv,
                       peaks |-> [j \in 1..np |-> ref[s] + ds[j]], par |-> ParOf]
             /\ w0 = s
             /\ truthPairs = [j \in 1..wl |-> <<s + j - 1, IF rv THEN wl + 1 - j ELSE j>>]
          /\ phase = "startPeak" /\ k = 1 /\ scored = <<>> /\ segsAll = <<>> /\ final = <<>> /\ row = <<>>
          /\ IdleP /\ IdleS /\ IdleC /\ IdleR
Next == CoreNext /\ UNCHANGED <<w0, truthPairs>>
Inv_Planted == phase = "done" => row.pairs = truthPairs
Inv_Conf == phase = "done" /\ Len(ain.peaks) = 1 =>
               row.conf = Len(truthPairs) * (ParOf.sp - AbsV(ain.peaks[1] - ain.ref[w0]))
Inv_NoAbort == phase # "aborted"
=============================================================================
