----------------------------- MODULE Trace_Runs -----------------------------
(* (C) the history of one REAL long-lived process that called Program.run several times with the real pool:       *)
(*  {"runs": [{"env": e, "cpus": n, "used": [e1, e2, ...]}, ...]}   in the order the runs were made;              *)
(*  env: which reference file the run was given (1 = the original, 2 = every label 5 kb further on);              *)
(*  used: per written record, the reference file its coordinates come from (read off RefStartPos).                *)
(* failed: Repetition (Runs.tla) on the observed history.  drift: the pool-cache bookkeeping of Runs.tla for the   *)
(* constants of the code as it is ("argument", ClearsPool) predicts used = env for every task - same statement,    *)
(* so there is no separate drift clause here.                                                                      *)
EXTENDS Runs, Json, IOUtils, TLC

Traces == ndJsonDeserialize(IOEnv.TRACE_FILE)
VARIABLES t, pc
TInit == t \in 1..Len(Traces) /\ pc = "judge" /\ InitG /\ env = 1 /\ cpus = 2
Flatten(rs) == LET RECURSIVE F(_, _)
                   F(k, acc) == IF k > Len(rs) THEN acc
                                ELSE F(k + 1, acc \o [j \in 1..Len(rs[k].used) |-> <<k, rs[k].used[j]>>])
               IN F(1, <<>>)
Verdict ==
    LET rs == Traces[t].runs
        g == [k \in 1..Len(rs) |-> rs[k].env]
        failed == IF Repetition(Flatten(rs), g) THEN {} ELSE {"every_task_computed_from_its_own_runs_inputs"}
    IN IF failed = {} THEN TRUE ELSE PrintT(ToString(<<"V", t, failed, {}>>))
Report == pc = "judge" /\ Verdict /\ pc' = "reported" /\ UNCHANGED <<t, rvars, given>>
Terminated == pc = "reported" /\ UNCHANGED <<t, pc, rvars, given>>
TNext == Report \/ Terminated
=============================================================================
