------------------------------ MODULE Trace_Xmap ------------------------------
(* (C) batch validation of XMAP records written by the REAL pipeline (text parsed independently) against the  *)
(* CMAP text, and of what the project's own reader returns for them.                                           *)
(*  {"kind": "record", "ref": {id,len,x}, "qry": {id,len,x}, "rec": {...}, "kth": n}                            *)
(*  {"kind": "readback", ..., "rb": {...}}                                                                       *)
(*  {"kind": "readbackg", ..., "rb": {...}, "given": {...}}   the row object the writer was handed                 *)
(* a record whose ids do not name input maps is recorded with ref/qry = {"id":0,"len":0,"x":[]}                  *)
EXTENDS Xmap, Json, IOUtils

Traces == ndJsonDeserialize(IOEnv.TRACE_FILE)
VARIABLE t
tr == Traces[t]
Init == \E j \in 1..Len(Traces) :
           t = j /\ RowM!InitWith(Traces[j].rec.pairs, Traces[j].rec.ori = "-")

Prefix(p, S) == {p \o c : c \in S}
Verdict ==
    LET rec == tr.rec
        c01 == IF tr.ref.id = 0 \/ tr.qry.id = 0 THEN {"ids_name_input_maps"}
               ELSE C01_Record_Failed(tr.ref, tr.qry, rec)
        c02 == IF c01 = {} THEN C02_Record_Failed(tr.ref, tr.qry, rec, tr.kth) ELSE {}
        c03 == IF c01 = {} THEN RowM!C03_Failed(rec.pairs, rec.ori = "-", rec.hit) ELSE {}
        c18 == (IF tr.kind \in {"readback", "readbackg"} /\ c01 = {} THEN C18_Record_Failed(tr.ref, tr.qry, rec, tr.rb) ELSE {})
               \cup (IF tr.kind = "readbackg" THEN C18_Given_Failed(tr.given, tr.rb) ELSE {})
        failed == Prefix("C01:", c01) \cup Prefix("C02:", c02) \cup Prefix("C03:", c03) \cup Prefix("C18:", c18)
        hdr == IF c01 = {} THEN HeaderImpl(tr.ref, tr.qry, rec.pairs, rec.ori = "-") ELSE [none |-> 0]
        drift == IF c01 # {} THEN {}
                 ELSE (IF hdr.qs = rec.qs /\ hdr.qe = rec.qe /\ hdr.rs = rec.rs /\ hdr.re = rec.re
                          /\ hdr.qlen = rec.qlen /\ hdr.rlen = rec.rlen THEN {} ELSE {"header_differs_from_spec"})
                      \cup (IF RowM!ResultText = rec.hit THEN {} ELSE {"hitenum_differs_from_spec"})
    IN IF failed \cup drift = {} THEN TRUE ELSE PrintT(ToString(<<"V", t, failed, drift>>))

Report == pc = "done" /\ Verdict /\ pc' = "reported"
          /\ UNCHANGED <<pairs, rev, ps, ri, k, prevQ, ops, a, cnt, prevOp, runs, t>>
Terminated == pc = "reported" /\ UNCHANGED <<xvars, t>>
Next == (RowM!RowNext /\ UNCHANGED t) \/ Report \/ Terminated
=============================================================================
