------------------------------- MODULE Wiring -------------------------------
(***************************************************************************)
(* Args.parse + WorkflowCoordinatorFactory.create (src/args.py,            *)
(* src/workflow_coordinator_factory.py): which command-line option reaches *)
(* which field of which component, and the documented defaults.            *)
(* Part of C04: "the values used are the ones given on the command line".  *)
(*                                                                         *)
(* cli  = function from the options that were given to their values        *)
(*        (floats scaled by 1000: -dp, -sj, -pt)                           *)
(* comp = function from component fields to the value found there         *)
(***************************************************************************)
EXTENDS Integers, Sequences, FiniteSets, TLC

Options == {"r1", "b1", "r2", "b2", "p", "md", "ma", "pt", "d", "sp", "dp", "su", "ms", "bs", "diff", "sj", "ss"}

Default == [r1 |-> 1400, b1 |-> 1, r2 |-> 100, b2 |-> 4, p |-> 3, md |-> 20000, ma |-> 16000, pt |-> 27000,
            d |-> 1500, sp |-> 1000, dp |-> 1000, su |-> -250, ms |-> 1000, bs |-> 1200, diff |-> 100000,
            sj |-> 1000, ss |-> 0]

\* component field -> the option that feeds it
Feeds == [primaryGenerator_resolution   |-> "r1", primaryGenerator_blurRadius   |-> "b1",
          secondaryGenerator_resolution |-> "r2", secondaryGenerator_blurRadius |-> "b2",
          peaksSelector_count           |-> "p",
          scorer_perfectMatchScore      |-> "sp", scorer_distancePenaltyMultiplier |-> "dp",
          scorer_unmatchedPenalty       |-> "su",
          segmentsFactory_minScore      |-> "ms", segmentsFactory_breakSegmentThreshold |-> "bs",
          engine_maxDistance            |-> "d",
          sequentialityScorer_segmentJoinMultiplier |-> "sj", sequentialityScorer_sequentialityScore |-> "ss",
          \* read from args at run time by the coordinators
          run_minPeakDistance |-> "md", run_secondaryMargin |-> "ma", run_peakHeightThreshold |-> "pt",
          run_maxDifference   |-> "diff"]
Fields == DOMAIN Feeds

Eff(cli, o) == IF o \in DOMAIN cli THEN cli[o] ELSE Default[o]

-----------------------------------------------------------------------------
VARIABLES cli, args, comp, pc
wvars == <<cli, args, comp, pc>>

InitWith(c) == cli = c /\ args = <<>> /\ comp = <<>> /\ pc = "parse"
Parse  == pc = "parse"  /\ args' = [o \in Options |-> Eff(cli, o)] /\ pc' = "create" /\ UNCHANGED <<cli, comp>>
Create == pc = "create" /\ comp' = [f \in Fields |-> args[Feeds[f]]] /\ pc' = "done" /\ UNCHANGED <<cli, args>>
WNext == Parse \/ Create
Done == pc = "done"

-----------------------------------------------------------------------------
(* the clause of C04: every option that was GIVEN is the value found in the field(s) it feeds *)
Unobserved == -999999999
C04_Wiring_Failed(c, obs) ==
    {"option_" \o Feeds[f] \o "_is_the_value_used_in_" \o f :
        f \in {g \in Fields : /\ Feeds[g] \in DOMAIN c /\ g \in DOMAIN obs /\ obs[g] # Unobserved
                              /\ obs[g] # c[Feeds[g]]}}
\* not part of the property: defaults as documented (README / --help)
DefaultDrift(c, obs) ==
    {"default_of_" \o Feeds[f] \o "_in_" \o f :
        f \in {g \in Fields : /\ Feeds[g] \notin DOMAIN c /\ g \in DOMAIN obs /\ obs[g] # Unobserved
                              /\ obs[g] # Default[Feeds[g]]}}
=============================================================================
