------------------------------ MODULE MC_Finder ------------------------------
(* every joined record that is a prefix of one part followed by a suffix of the other (what the join produces), on    *)
(* 5 reference / query labels with coordinates that put the gap difference below, between and above the thresholds   *)
EXTENDS Finder
CONSTANTS N, Coords
Run(a, b) == [i \in 1..(b - a + 1) |-> <<a + i - 1, a + i - 1>>]
Parts == {Run(a, b) : a \in 1..N, b \in 1..N} \ {<<>>}
Prefixes(s) == {SubSeq(s, 1, m) : m \in 0..Len(s)}
Suffixes(s) == {SubSeq(s, m, Len(s)) : m \in 1..(Len(s) + 1)}
Ascending(s) == \A i \in 1..(Len(s) - 1) : s[i][1] < s[i + 1][1]
Asc == {f \in [1..N -> Coords] : \A i \in 1..(N - 1) : f[i] < f[i + 1]}
Init == \E o \in Parts, r \in Parts :
          \E j \in {p \o q : p \in Prefixes(o), q \in Suffixes(r)} \cup {p \o q : p \in Prefixes(r), q \in Suffixes(o)} :
              /\ j # <<>> /\ Ascending(j)
              /\ fin = [J |-> j, O |-> o, R |-> r, refx |-> <<>>, qryx |-> <<>>, lo |-> 2, hi |-> 9, qid |-> 7, chr |-> 1]
              /\ part = <<>> /\ idx = 1 /\ junction = 0 /\ call = <<>> /\ fpc = "genr"
GenR == fpc = "genr" /\ (\E f \in Asc : fin' = [fin EXCEPT !.refx = f]) /\ fpc' = "genq" /\ UNCHANGED <<part, idx, junction, call>>
GenQ == fpc = "genq" /\ (\E f \in Asc : fin' = [fin EXCEPT !.qryx = f]) /\ fpc' = "pick" /\ UNCHANGED <<part, idx, junction, call>>
Terminated == fpc \in {"done", "aborted"} /\ UNCHANGED fvars
Next == GenR \/ GenQ \/ FinderNext \/ Terminated
=============================================================================
