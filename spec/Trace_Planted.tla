----------------------------- MODULE Trace_Planted -----------------------------
(* (C) C06 on what the REAL pipeline reports for planted queries.                                                   *)
(*  {"ref": id, "rev": planted on the '-' strand, "truth": [[r, q], ...] in ascending reference order,               *)
(*   "rec": [record] or [] (the record of the query in the file that holds first-pass / un-joined records),          *)
(*   "shifts": [offset of every reported pair from its seed diagonal, in bp; [] when not observable in this mode]}   *)
EXTENDS Integers, Sequences, FiniteSets, TLC, Json, IOUtils

Traces == ndJsonDeserialize(IOEnv.TRACE_FILE)
VARIABLES t, pc
tr == Traces[t]
Init == t \in 1..Len(Traces) /\ pc = "judge"
RECURSIVE Digits(_)
Digits(n) == IF n < 10 THEN <<48 + n>> ELSE Digits(n \div 10) \o <<48 + (n % 10)>>      \* decimal digits as character codes
C06_Failed ==
    IF tr.rec = <<>> THEN {"planted_query_is_reported"}
    ELSE LET r == tr.rec[1] IN
         (IF r.r = tr.ref THEN {} ELSE {"on_that_reference"})
         \cup (IF r.ori = (IF tr.rev THEN "-" ELSE "+") THEN {} ELSE {"on_that_strand"})
         \cup (IF r.pairs = tr.truth THEN {} ELSE {"exactly_the_true_pairs"})
         \cup (IF \A j \in 1..Len(tr.shifts) : tr.shifts[j] <= 200 /\ tr.shifts[j] >= -200 THEN {} ELSE {"within_200bp_of_seed_diagonal"})
         \cup (IF r.hit = Digits(Len(tr.truth)) \o <<77>> THEN {} ELSE {"no_HitEnum_gaps"})
Verdict == IF C06_Failed = {} THEN TRUE ELSE PrintT(ToString(<<"V", t, C06_Failed, {}>>))
Report == pc = "judge" /\ Verdict /\ pc' = "reported" /\ UNCHANGED t
Terminated == pc = "reported" /\ UNCHANGED <<t, pc>>
Next == Report \/ Terminated
=============================================================================
