CONSTANTS
  RefMax = 6
  RefMaxLabels = 4
  QryMax = 3
  ResSet = {1, 2}
  BlurSet = {0, 1}
  MdFactors = {1, 2, 3}
  PCounts = {1, 2}
  TailSet = {0}
INIT Init
NEXT Next
INVARIANT ExportInv
CONSTRAINT ExportStop
CHECK_DEADLOCK FALSE
