---------------------------- MODULE Trace_RowScore ----------------------------
(* (C) C04 at the end of the pipeline: rows returned by Program.run() (their segments, positions and seed peaks)   *)
(* against the raw CMAP coordinates, the parameters the harness passed, and the Confidence written to the file.     *)
(*  {"in": {ref, qry (whole trimmed query), qlen, shift: 0, rev, peaks: [], par}   all lengths in deci-bp, scores   *)
(*          multiplied by 10 * dpden,                                                                               *)
(*   "segs": [{"peak", "pos": [{k,r,q,sh,sc}]}], "conf": exact confidence (x 10 dpden), "written": file (1/100)}    *)
EXTENDS AlignCore, Json, IOUtils
Traces == ndJsonDeserialize(IOEnv.TRACE_FILE)
VARIABLE t
tr == Traces[t]
Init == \E j \in 1..Len(Traces) : t = j /\ InitWith(Traces[j]["in"]) 
Segs == [a \in 1..Len(tr.segs) |-> [peak |-> tr.segs[a].peak, pos |-> tr.segs[a].pos]]
Verdict ==
    LET unit == 10 * ain.par.dpden
        failed == C04_Failed(ain, Segs, tr.conf)
                  \cup (IF AbsV(tr.written * unit - tr.conf * 100) * 2 <= unit   \* within half a hundredth, rounding ties included
                        THEN {} ELSE {"written_confidence_is_the_sum_to_2_decimals"})
    IN IF failed = {} THEN TRUE ELSE PrintT(ToString(<<"V", t, failed, {}>>))
Report == phase # "reported" /\ Verdict /\ phase' = "reported"
          /\ UNCHANGED <<ain, k, scored, segsAll, final, row, pvars, svars, chvars, rvars, t>>
Terminated == phase = "reported" /\ UNCHANGED <<allvars, t>>
Next == Report \/ Terminated
=============================================================================
