---------------------------- MODULE MC_Segmenter ----------------------------
(* (A) exhaustive check: the implementation-shaped builder satisfies C13 on   *)
(* every score sequence up to MaxLen over Alphabet and every (ms, bs).        *)
(* Also used by Export_Segmenter.cfg to write the same InputSpace as NDJSON.  *)
EXTENDS Segmenter, Json, IOUtils, SequencesExt, FiniteSetsExt

CONSTANTS MaxLen, Alphabet, MsSet, BsSet
AlphaA == {-3, -1, 0, 1, 2, 3}   \* hits = 0, = cur - bs, = ms
AlphaB == {-3, -1, 1, 2, 3}

SeqsUpTo(S, n) == UNION {[1..m -> S] : m \in 0..n}
KindOf(x) == IF x > 0 THEN "P" ELSE "R"
InputSpace ==
    {[sc |-> s, kd |-> [k \in 1..Len(s) |-> KindOf(s[k])], ms |-> m, bs |-> b] :
        s \in SeqsUpTo(Alphabet, MaxLen), m \in MsSet, b \in BsSet}

\* The input is grown inside the behaviour (pc = "gen") so that the 16 workers share the enumeration;
\* the set of inputs reached this way is exactly InputSpace.
Init == \E m \in MsSet, b \in BsSet :
          /\ inp = [sc |-> <<>>, kd |-> <<>>, ms |-> m, bs |-> b]
          /\ i = 0 /\ start = 0 /\ ext = 0 /\ cur = EmptySeg /\ res = <<>> /\ pc = "gen"
GenAppend == /\ pc = "gen" /\ Len(inp.sc) < MaxLen
             /\ \E x \in Alphabet : inp' = [inp EXCEPT !.sc = Append(@, x), !.kd = Append(@, KindOf(x))]
             /\ UNCHANGED <<i, start, ext, cur, res, pc>>
GenStart == /\ pc = "gen" /\ pc' = "scan" /\ UNCHANGED <<inp, i, start, ext, cur, res>>
Next == GenAppend \/ GenStart \/ SegNext
Spec == Init /\ [][Next]_svars

\* the listed property, on the model
Inv_C13 == Done => C13_Holds(inp, Result)
\* structural sanity of the state machine
Inv_Type == pc # "gen" => /\ i \in 0..Len(inp.sc) /\ start \in 0..i /\ ext >= 0
            /\ cur.score >= 0 /\ (cur.idx = <<>> <=> cur.score = 0)
\* named deviation, documented: with bs < ms a qualifying run can be lost (stale currentSegment).
\* This invariant is EXPECTED to be violated when the config allows bs < ms; it is checked only
\* in MC_Segmenter_stale.cfg to demonstrate the deviation.
Inv_ConverseEverywhere ==
    Done /\ IsEmptyResult(Result) =>
        ~ \E lo \in 1..Len(inp.sc) : \E hi \in lo..Len(inp.sc) : Qualifies(inp, Pre(inp.sc), lo, hi)

\* ---- export of the input space (evaluated once, by Export_Segmenter.cfg) ----
ExportInit == /\ InitWith([sc |-> <<>>, kd |-> <<>>, ms |-> 1, bs |-> 1])
              /\ ndJsonSerialize(IOEnv.OUT_FILE, SetToSeq(InputSpace))
ExportNext == FALSE /\ UNCHANGED svars
=============================================================================
