--------------------------- MODULE Trace_AlignCore ---------------------------
(* (C) batch validation of rows returned by the REAL Aligner.align (real factory wiring).                 *)
(*  {"in": {ref, qry, qlen, shift, rev, peaks, par},                                                       *)
(*   "chain": [indices into the concatenated segment list]   the real chainer's order, or [] when the      *)
(*            input is lattice-scale and the chainer itself is replayed,                                    *)
(*   "replayChain": bool,                                                                                   *)
(*   "obs": {"status": "ok"|"exc:..", "segs": [{"peak": p, "pos": [{k,r,q,sh,sc}]}], "pairs": [[r,q]..],    *)
(*           "conf": n}}                                                                                    *)
(* failed: C01 / C04 clauses on the observed row (decide); drift: the composed Impl model ends differently *)
EXTENDS AlignCore, Json, IOUtils

Traces == ndJsonDeserialize(IOEnv.TRACE_FILE)
VARIABLE t
tr == Traces[t]

Init == \E j \in 1..Len(Traces) : t = j /\ InitWith(Traces[j]["in"])

\* the chain order is a logged choice for real-scale inputs (DESIGN.md 2.4)
ToResolverLogged ==
    /\ phase = "collected" /\ Len(segsAll) >= 2 /\ ~tr.replayChain
    /\ IF \A j \in 1..Len(tr.chain) : tr.chain[j] \in 1..Len(segsAll)
       THEN R!StartWith([j \in 1..Len(tr.chain) |-> segsAll[tr.chain[j]]]) /\ phase' = "resolve"
       ELSE phase' = "aborted" /\ UNCHANGED rvars     \* the logged chain does not fit the model's segments: drift
    /\ UNCHANGED <<ain, k, scored, segsAll, final, row, pvars, svars, chvars>>

TraceCore == \/ StartPeak \/ PairStep \/ ToSegmenter \/ SegStep \/ CollectPeak \/ Untouched
             \/ (tr.replayChain /\ (ToChainer \/ ChainStep \/ ToResolver))
             \/ ToResolverLogged \/ ResolveStep \/ Resolved \/ Aborted \/ MakeRow

ObsSegs == [a \in 1..Len(tr.obs.segs) |-> [peak |-> tr.obs.segs[a].peak, pos |-> tr.obs.segs[a].pos]]
ModelSegs == [a \in 1..Len(final) |-> [peak |-> final[a].peak, pos |-> final[a].pos]]

Verdict ==
    LET o == tr.obs
        failed == IF o.status # "ok" THEN {"align_raised_" \o o.status}
                  ELSE (IF o.pairs = <<>> THEN {}
                        ELSE {"C01:" \o c : c \in C01_Failed(o.pairs, ain.rev, Len(ain.ref), 1, tr.nq)})
                       \cup {"C04:" \o c : c \in C04_Failed(ain, ObsSegs, o.conf)}
        drift  == IF o.status = "ok" /\ phase = "done" /\ ModelSegs = ObsSegs /\ row.pairs = o.pairs /\ row.conf = o.conf
                  THEN {}
                  ELSE IF o.status # "ok" /\ phase = "aborted" THEN {}
                  ELSE {"row_differs_from_spec"}
    IN IF failed \cup drift = {} THEN TRUE ELSE PrintT(ToString(<<"V", t, failed, drift>>))

Report == Done /\ Verdict /\ phase' = "reported"
          /\ UNCHANGED <<ain, k, scored, segsAll, final, row, pvars, svars, chvars, rvars, t>>
Terminated == phase = "reported" /\ UNCHANGED <<allvars, t>>
Next == (TraceCore /\ UNCHANGED t) \/ Report \/ Terminated
=============================================================================
