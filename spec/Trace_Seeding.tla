---------------------------- MODULE Trace_Seeding ----------------------------
(* (C) batch validation of OpticalMap.getInitialAlignment results recorded from the REAL code:                       *)
(*   {"inp": {ref, qry, rev, res, blur, md, pcount}, "sc": scale,                                                    *)
(*    "obs": {"exc": "" | exception name, "empty": BOOLEAN, "corr": [sample * sc, rounded],                          *)
(*            "peaks": [[position, height * sc, score * sc]]}}                                                      *)
(* The trace specification replays Seeding's actions; where the specification leaves a choice (equal heights) the    *)
(* logged result binds it.  Verdict: property clauses (C07: the stage raised; C16: a seed is no bin centre / the     *)
(* kept seeds are not the highest of the candidates) and drift clauses (the code left the specification: samples,    *)
(* emptiness, the seeds themselves, the contract the later stages assume).                                           *)
EXTENDS Seeding, Json, IOUtils

Traces == ndJsonDeserialize(IOEnv.TRACE_FILE)
VARIABLE t
Obs == Traces[t].obs
Sc == Traces[t].sc

IsRefine == "peak" \in DOMAIN inp
Init == \E j \in 1..Len(Traces) : t = j /\ (IF "peak" \in DOMAIN Traces[j].inp THEN RStartWith(Traces[j].inp) ELSE StartWith(Traces[j].inp))

Adj(res) == (res + 1) \div 2 - 1
Origin == IF IsRefine THEN RefStart ELSE 0                       \* refined peaks are counted from the start of the window
ObsIdx(p) == (p[1] - Origin - Adj(inp.res)) \div inp.res + 1     \* 1-based sample index of an observed seed
ObsSet == {ObsIdx(Obs.peaks[i]) : i \in 1..Len(Obs.peaks)}

\* the two choices of LocalMaxima / HeightFilter (a member of each plateau; candidates exactly at the threshold) are
\* taken from the log: written out instead of conjoined with the action because the action enumerates a function set
TraceLocalMaxima ==
    /\ pc = "corr"
    /\ LET N == (ObsSet \cap FlatMaxima(x))
                 \cup {(run[1] + run[2]) \div 2 : run \in {r \in Plateaus(x) : ~\E i \in ObsSet : i >= r[1] /\ i <= r[2]}}
       IN LegalNoise(x, N) /\ cand' = StrictMaxima(x) \cup N
    /\ pc' = "height" /\ UNCHANGED <<inp, rs, qs, x, done, peaks, empty>>
TraceHeightFilter ==
    /\ pc = "height"
    /\ cand' = {i \in cand : \/ AboveThreeQuarters(x[i], MaxSample(x))
                              \/ (ReachesThreeQuarters(x[i], MaxSample(x)) /\ i \in ObsSet)}
    /\ pc' = "dist" /\ UNCHANGED <<inp, rs, qs, x, done, peaks, empty>>

TraceRLocalMaxima ==
    /\ pc = "rcorr"
    /\ LET N == (ObsSet \cap FlatMaxima(x))
                 \cup {(run[1] + run[2]) \div 2 : run \in {r \in Plateaus(x) : ~\E i \in ObsSet : i >= r[1] /\ i <= r[2]}}
       IN LegalNoise(x, N) /\ cand' = StrictMaxima(x) \cup N
    /\ pc' = "rheight" /\ UNCHANGED <<inp, rs, qs, x, done, peaks, empty>>
TraceRHeight ==
    /\ pc = "rheight"
    /\ cand' = {i \in cand : x[i].n > inp.pt \/ (x[i].n = inp.pt /\ i \in ObsSet)}
    /\ pc' = "rprom" /\ UNCHANGED <<inp, rs, qs, x, done, peaks, empty>>
TraceRProminence ==
    /\ pc = "rprom"
    /\ cand' = {i \in cand : \/ 20 * Prominence(x, i) > MaxSample(x).n
                              \/ (20 * Prominence(x, i) = MaxSample(x).n /\ i \in ObsSet)}
    /\ pc' = "keep" /\ UNCHANGED <<inp, rs, qs, x, done, peaks, empty>>

\* bind the specification's choices to what was logged, when the logged value is one of the allowed choices
TraceDistStep ==
    /\ DistStep
    /\ LET elig == {j \in cand \ done : \A i \in cand \ done : Le(x[i], x[j])}
           pref == elig \cap ObsSet
       IN done' \ done \subseteq (IF pref # {} THEN {CHOOSE j \in pref : \A i \in pref : i <= j}
                                  ELSE {CHOOSE j \in elig : \A i \in elig : i <= j})
TraceKeepTop ==
    /\ pc = "keep"
    /\ peaks' = (IF LegalKeep(ObsSet) THEN ObsSet
                 ELSE SureKeep \cup (CHOOSE U \in kSubset(KeepCount - Cardinality(SureKeep), CutTies) : TRUE))
    /\ pc' = "done" /\ UNCHANGED <<inp, rs, qs, x, cand, done, empty>>

Abs(a) == IF a < 0 THEN -a ELSE a
TieFree == /\ \A i, j \in cand : i # j => ~Eq(x[i], x[j])
Verdict ==
    LET aborted == pc \in {"aborted", "outside"}
        failedC07 == IF Obs.exc # "" /\ ~aborted THEN {"C07:seeding_raised_" \o Obs.exc} ELSE {}
        ok == Obs.exc = "" /\ ~aborted
        failedC16 ==
            IF ~ok \/ empty \/ Obs.empty THEN {}
            ELSE (IF \A i \in 1..Len(Obs.peaks) : (Obs.peaks[i][1] - Origin - Adj(inp.res)) % inp.res = 0
                  THEN {} ELSE {"C16:seed_position_is_not_a_bin_centre"})
            \cup (IF ObsSet \subseteq cand /\ ~LegalKeep(ObsSet) THEN {"C16:kept_seeds_are_not_the_highest_candidates"} ELSE {})
        drift ==
            IF pc = "outside" THEN {}
            ELSE IF aborted THEN (IF Obs.exc = "" THEN {"spec_aborts_but_code_did_not"} ELSE {})
            ELSE IF Obs.exc # "" THEN {}
            ELSE IF empty # Obs.empty THEN {"emptiness_differs_from_spec"}
            ELSE IF empty THEN {}
            ELSE (IF Len(Obs.corr) = Len(x) THEN {} ELSE {"number_of_samples_differs"})
            \cup (IF Len(Obs.corr) = Len(x) /\ \A kk \in 1..Len(x) : Abs(Obs.corr[kk] * x[kk].d - x[kk].n * Sc) <= 2 * x[kk].d
                  THEN {} ELSE {"sample_differs_from_exact_dice"})
            \cup (IF peaks = ObsSet THEN {} ELSE {"seeds_differ_from_spec"})
            \cup (IF \A i \in 1..Len(Obs.peaks) : ObsIdx(Obs.peaks[i]) \in 1..Len(x) =>
                        Abs(Obs.peaks[i][2] * x[ObsIdx(Obs.peaks[i])].d - x[ObsIdx(Obs.peaks[i])].n * Sc)
                           <= 2 * x[ObsIdx(Obs.peaks[i])].d
                  THEN {} ELSE {"seed_height_is_not_the_sample_at_its_position"})
            \cup (IF \A i, j \in 1..Len(Obs.peaks) :
                        Abs((Obs.peaks[i][2] - Obs.peaks[i][3]) - (Obs.peaks[j][2] - Obs.peaks[j][3])) <= 2
                  THEN {} ELSE {"score_is_not_height_minus_one_noise_level"})
            \cup {"contract:" \o c : c \in (IF IsRefine THEN RContract_Failed(inp, x, ObsSet)
                                            ELSE Contract_Failed(inp, x, ObsSet) \cup Complete_Failed(inp, x, ObsSet))}
        kinds == (IF empty THEN {"empty"} ELSE {}) \cup (IF aborted THEN {pc} ELSE {}) \cup (IF IsRefine THEN {"refine"} ELSE {})
                 \cup (IF ~empty /\ ~aborted /\ ~TieFree THEN {"ties"} ELSE {})
                 \cup (IF ~empty /\ ~aborted /\ Cardinality(cand) > inp.pcount THEN {"cut"} ELSE {})
                 \cup (IF ~empty /\ ~aborted /\ \E i \in 1..Len(x) : IsOne(x[i]) THEN {"exact_locus"} ELSE {})
    IN /\ (kinds = {} \/ PrintT(ToString(<<"K", t, kinds>>)))
       /\ (failedC07 \cup failedC16 \cup drift = {} \/ PrintT(ToString(<<"V", t, failedC07 \cup failedC16, drift>>)))

Report == pc \in {"done", "aborted", "outside"} /\ Verdict /\ pc' = "reported" /\ UNCHANGED <<inp, rs, qs, x, cand, done, peaks, empty, t>>
Terminated == pc = "reported" /\ UNCHANGED <<svars, t>>
TraceNext == \/ (TooLong \/ Sequences \/ SeqTooLong \/ Correlate \/ TraceLocalMaxima \/ TraceHeightFilter \/ Abort_DistanceBelowOne
                 \/ TraceDistStep \/ DistDone \/ TraceKeepTop
                 \/ RSequences \/ RWindowShort \/ RCorrelate \/ TraceRLocalMaxima \/ TraceRHeight \/ TraceRProminence) /\ UNCHANGED t
             \/ Report \/ Terminated
=============================================================================
