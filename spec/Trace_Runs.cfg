CONSTANTS
  Envs = {1, 2}
  Counts = {2, 3}
  MaxRuns = 9
  TasksPerRun = 1
  Delivery = "argument"
  ClearsPool = TRUE
INIT TInit
NEXT TNext
CHECK_DEADLOCK TRUE
