------------------------------- MODULE MC_Xmap -------------------------------
(* (A) for every valid matching between small maps (non-zero first query label, trailing length after the   *)
(* last label, one-decimal coordinates, both strands) the record computed the way AlignmentResultRow.create  *)
(* + getPositionsWithSiteIds + the writer compute it satisfies the declarative C01 / C02 / C03 clauses.       *)
EXTENDS Xmap, Json

CONSTANTS NR, NQ, RefCoords, QryCoords

VARIABLES ref, qry
AscSeqs(S, n) == {s \in [1..n -> S] : \A j \in 1..(n-1) : s[j] < s[j+1]}
Init == \E rx \in AscSeqs(RefCoords, NR), qx \in AscSeqs(QryCoords, NQ), rv \in BOOLEAN, tailR \in {1, 132}, tailQ \in {0, 33} :
          /\ ref = [id |-> 2, len |-> rx[NR] + tailR, x |-> rx]
          /\ qry = [id |-> 7, len |-> qx[NQ] + tailQ, x |-> qx]
          /\ \E m \in RowM!Matchings(NR, NQ, rv) : RowM!InitWith(m, rv)
Next == RowM!RowNext /\ UNCHANGED <<ref, qry>>

RecImpl == LET h == HeaderImpl(ref, qry, pairs, rev) IN
           [id |-> 1, q |-> qry.id, r |-> ref.id, qs |-> h.qs, qe |-> h.qe, rs |-> h.rs, re |-> h.re,
            ori |-> IF rev THEN "-" ELSE "+", conf |-> 0, hit |-> RowM!ResultText, qlen |-> h.qlen, rlen |-> h.rlen,
            rest |-> "False", pairs |-> pairs]
Inv_C01 == RowM!Done => C01_Record_Failed(ref, qry, RecImpl) = {}
Inv_C02 == RowM!Done => C02_Record_Failed(ref, qry, RecImpl, 1) = {}
Inv_C03 == RowM!Done => RowM!C03_Holds(pairs, rev, RecImpl.hit)
\* (B) every (maps, matching, strand) of this space, printed once: the harness builds the REAL row
\* (AlignmentResultRow.create), writes it with the real XMAP writer and reads it back (C18, C02)
ExportInv == PrintT("X" \o ToJson([ref |-> ref, qry |-> qry, pairs |-> pairs, rev |-> rev]))
ExportStop == TLCGet("level") <= 1
=============================================================================
