----------------------------- MODULE Trace_Indels -----------------------------
(* (C) results of the REAL cluster_indels / write_indel_file (file parsed independently) and of the two          *)
(* look_for_indels_in_breakage finders.                                                                            *)
(*  {"kind": "cluster", "calls": [{type,chr,rs,re,qid,qs,qe,len}], "obs": [{type,chr,rs,re,ids,count}]}             *)
(*  {"kind": "call", "call": {type,chr,rs,re,qid,qs,qe,len}}                                                        *)
(*  {"kind": "finder", "calls": [call, ...], "fed": {qid, chr, nbreak}}   everything ONE invocation of a finder returned   *)
(*  {"kind": "flank", "call": {...}, "pairs": [[r,q],...], "refx": [...], "qryx": [...]}   a call written by           *)
(*      sv/molecule_indels.run on COMA's output files, with the joined record of its query and the two maps           *)
EXTENDS Indels, Json, IOUtils
Traces == ndJsonDeserialize(IOEnv.TRACE_FILE)
VARIABLE t
tr == Traces[t]
Init == \E j \in 1..Len(Traces) : t = j /\ InitWith(IF Traces[j].kind = "cluster" THEN Traces[j].calls ELSE <<>>)
Verdict ==
    LET failed == IF tr.kind = "call" THEN C20_Call_Failed(tr.call)
                  ELSE IF tr.kind = "finder" THEN C20_Finder_Failed(tr.calls, tr.fed)
                  ELSE IF tr.kind = "flank" THEN C20_Call_Failed(tr.call) \cup C20_Flank_Failed(tr.call, tr.pairs, tr.refx, tr.qryx)
                  ELSE IF ~SortedAsWriterSorts(calls) THEN {} ELSE C20_Cluster_Failed(calls, tr.obs)
        drift == IF tr.kind \in {"call", "flank", "finder"} \/ clusters = tr.obs THEN {} ELSE {"clusters_differ_from_spec"}
    IN IF failed \cup drift = {} THEN TRUE ELSE PrintT(ToString(<<"V", t, failed, drift>>))
Report == pc = "done" /\ Verdict /\ pc' = "reported" /\ UNCHANGED <<calls, k, clusters, t>>
Terminated == pc = "reported" /\ UNCHANGED <<ivars, t>>
Next == (IndelNext /\ UNCHANGED t) \/ Report \/ Terminated
=============================================================================
