------------------------------ MODULE Geometry ------------------------------
(***************************************************************************)
(* Label geometry shared by all modules (src/correlation/optical_map.py:   *)
(* OpticalMap, PositionWithSiteId, getPositionsWithSiteIds, trim).         *)
(*                                                                         *)
(* A label is <<id, x>>: label number (site id) and coordinate.            *)
(* A query is given by its ascending coordinates xs, the length of the     *)
(* WHOLE trimmed query (also for second-pass fragments, which are slices   *)
(* of the whole query's coordinates and are not re-trimmed) and the        *)
(* label-number offset `shift` of the fragment.                            *)
(***************************************************************************)
EXTENDS Integers, Sequences, FiniteSets

NullLabel == <<0, 0>>
Id(l) == l[1]
X(l)  == l[2]

AbsV(x) == IF x < 0 THEN -x ELSE x
MinV(a, b) == IF a < b THEN a ELSE b
MaxV(a, b) == IF a > b THEN a ELSE b

\* reference labels: ids 1..n, ascending coordinates
RefLabels(xs) == [i \in 1..Len(xs) |-> <<i, xs[i]>>]

\* getPositionsWithSiteIds(reverse): forward <<shift+i, x_i>>; reverse: ascending mirrored coordinate
\* (len-1) - x, descending ids starting from n+shift
QryLabels(xs, len, shift, rev) ==
    LET n == Len(xs) IN
    IF rev THEN [i \in 1..n |-> <<shift + n + 1 - i, (len - 1) - xs[n + 1 - i]>>]
           ELSE [i \in 1..n |-> <<shift + i, xs[i]>>]

\* OpticalMap.trim
TrimXs(xs)  == [i \in 1..Len(xs) |-> xs[i] - xs[1]]
TrimLen(xs) == xs[Len(xs)] - xs[1] + 1

\* stable insertion sort by an integer key
StableSortBy(s, Key(_)) ==
    LET Ins(t, x) == LET c == Cardinality({j \in 1..Len(t) : Key(t[j]) <= Key(x)})
                     IN SubSeq(t, 1, c) \o <<x>> \o SubSeq(t, c + 1, Len(t))
        f[j \in 0..Len(s)] == IF j = 0 THEN <<>> ELSE Ins(f[j-1], s[j])
    IN f[Len(s)]

SeqToSet(s) == {s[j] : j \in 1..Len(s)}
FilterSeq(s, Test(_)) ==
    LET f[j \in 0..Len(s)] == IF j = 0 THEN <<>> ELSE IF Test(s[j]) THEN Append(f[j-1], s[j]) ELSE f[j-1]
    IN f[Len(s)]
FilterSeqIdx(s, TestIdx(_)) ==
    LET f[j \in 0..Len(s)] == IF j = 0 THEN <<>> ELSE IF TestIdx(j) THEN Append(f[j-1], s[j]) ELSE f[j-1]
    IN f[Len(s)]
NonDecreasing(s) == \A j \in 1..(Len(s)-1) : s[j] <= s[j+1]
=============================================================================
