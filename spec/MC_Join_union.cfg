CONSTANTS
  NLab = 6
  Diags = {0, 1}
  ComparePolicy = "nearest_with_pairs"
  TrimGuard = FALSE
INIT Init
NEXT Next
INVARIANT Inv_NoAbort
INVARIANT Inv_Union
CHECK_DEADLOCK TRUE
