CONSTANTS
  Tasks = {1, 2, 3, 4}
  Workers = {1, 2, 3}
  Calls <- CallsFn
  Ship = "per_worker"
INIT Init
NEXT Next
INVARIANT Inv_SourceIndependent
CHECK_DEADLOCK FALSE
