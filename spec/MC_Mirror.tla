------------------------------ MODULE MC_Mirror ------------------------------
(* (A) for C11: two runs of the composed Aligner.align model on one input - the query as given and its mirror   *)
(* image on the other strand, same reference, same seed peaks - produce mirror-image rows, on every small        *)
(* lattice input (coordinates multiples of Step, maxD < Step/2 so that there are no equidistant ties).           *)
EXTENDS AlignCore, FiniteSetsExt

PeaksM == -1..9
CONSTANTS Step, RefLens, RefSlots, QryLens, QrySlots, PeakCounts, PeakSet, MsSet, BsSet, SjSet, Scale

VARIABLES gen, round, saved

ParOf(ms, bs, sj) == [sp |-> 3, dpnum |-> 1, dpden |-> 1, su |-> -1, maxD |-> (Step - 1) \div 2, ms |-> ms, bs |-> bs,
                      mnum |-> sj, mden |-> 1, variant |-> 0, scale |-> Scale]
Init == \E ms \in MsSet, bs \in BsSet, sj \in SjSet, rv \in BOOLEAN :
          /\ ain = [ref |-> <<>>, qry |-> <<0>>, qlen |-> 1, shift |-> 0, rev |-> rv, peaks |-> <<>>,
                    par |-> ParOf(ms, bs, sj)]
          /\ gen = "ref" /\ phase = "gen" /\ k = 1 /\ scored = <<>> /\ segsAll = <<>> /\ final = <<>> /\ row = <<>>
          /\ round = 1 /\ saved = <<>>
          /\ IdleP /\ IdleS /\ IdleC /\ IdleR
Keep == UNCHANGED <<phase, k, scored, segsAll, final, row, round, saved, pvars, svars, chvars, rvars>>
LastOr(s, d) == IF s = <<>> THEN d ELSE s[Len(s)]
GenRef == /\ phase = "gen" /\ gen = "ref" /\ Len(ain.ref) < Max(RefLens)
          /\ \E x \in {Step * m : m \in 0..RefSlots} : x > LastOr(ain.ref, -1) /\ ain' = [ain EXCEPT !.ref = Append(@, x)]
          /\ UNCHANGED gen /\ Keep
GenRefDone == /\ phase = "gen" /\ gen = "ref" /\ Len(ain.ref) \in RefLens /\ gen' = "qry" /\ UNCHANGED ain /\ Keep
GenQry == /\ phase = "gen" /\ gen = "qry" /\ Len(ain.qry) < Max(QryLens)
          /\ \E x \in {Step * m : m \in 1..QrySlots} : x > LastOr(ain.qry, 0)
                 /\ ain' = [ain EXCEPT !.qry = Append(@, x), !.qlen = x + 1]
          /\ UNCHANGED gen /\ Keep
GenQryDone == /\ phase = "gen" /\ gen = "qry" /\ Len(ain.qry) \in QryLens /\ gen' = "peaks" /\ UNCHANGED ain /\ Keep
GenPeak == /\ phase = "gen" /\ gen = "peaks" /\ Len(ain.peaks) < Max(PeakCounts)
           /\ \E x \in {y \in PeakSet : y >= LastOr(ain.peaks, -100)} : ain' = [ain EXCEPT !.peaks = Append(@, x)]
           /\ UNCHANGED gen /\ Keep
GenDone == /\ phase = "gen" /\ gen = "peaks" /\ Len(ain.peaks) \in PeakCounts
           /\ gen' = "done" /\ phase' = "startPeak"
           /\ UNCHANGED <<ain, k, scored, segsAll, final, row, round, saved, pvars, svars, chvars, rvars>>

\* the mirror image of the query, to be aligned on the other strand
MirrorInput(in) == LET n == Len(in.qry)  L == in.qlen - 1 IN
                   [in EXCEPT !.qry = [i \in 1..n |-> L - in.qry[n + 1 - i]], !.rev = ~in.rev]
MirrorRow(rw, n) == [rw EXCEPT !.pairs = [j \in 1..Len(rw.pairs) |-> <<rw.pairs[j][1], n + 1 - rw.pairs[j][2]>>],
                               !.qStart = rw.qEnd, !.qEnd = rw.qStart]
SecondRound ==
    /\ phase = "done" /\ round = 1
    /\ saved' = row /\ round' = 2 /\ ain' = MirrorInput(ain)
    /\ phase' = "startPeak" /\ k' = 1 /\ scored' = <<>> /\ segsAll' = <<>> /\ final' = <<>> /\ row' = <<>>
    /\ UNCHANGED <<gen, pvars, svars, chvars, rvars>>
Next == GenRef \/ GenRefDone \/ GenQry \/ GenQryDone \/ GenPeak \/ GenDone
        \/ (CoreNext /\ UNCHANGED <<gen, round, saved>>) \/ SecondRound

Inv_C11 == phase = "done" /\ round = 2 => row = MirrorRow(saved, Len(ain.qry))
Inv_NoAbort == phase # "aborted"
=============================================================================
