CONSTANTS
  N = 4
  Coords = {0, 1, 3, 4, 9, 15}
  Blur = 3
  DropsOtherChromosome = FALSE
INIT Init
NEXT Next
INVARIANT Inv_FinderNoAbort
CHECK_DEADLOCK TRUE
