--------------------------- MODULE Trace_SameFiles ---------------------------
(* (C) two sets of files that a property says must carry the same records (C07: with / without the unalignable  *)
(* molecules; C10: per-query records of variant runs).  {"with": {"main","f1","f2"}, "without": {...}}            *)
EXTENDS Pipeline, Json, IOUtils

Traces == ndJsonDeserialize(IOEnv.TRACE_FILE)
VARIABLES t, pc
Init == t \in 1..Len(Traces) /\ pc = "judge"
Verdict ==
    LET a == Traces[t]["with"]  b == Traces[t].without
        failed == (IF SameFile(a.main, b.main) THEN {} ELSE {"main_file_records_equal"})
                  \cup (IF SameFile(a.f1, b.f1) THEN {} ELSE {"first_additional_file_records_equal"})
                  \cup (IF SameFile(a.f2, b.f2) THEN {} ELSE {"second_additional_file_records_equal"})
    IN IF failed = {} THEN TRUE ELSE PrintT(ToString(<<"V", t, failed, {}>>))
Report == pc = "judge" /\ Verdict /\ pc' = "reported" /\ UNCHANGED t
Terminated == pc = "reported" /\ UNCHANGED <<t, pc>>
Next == Report \/ Terminated
=============================================================================
