CONSTANTS
  Blur = 30000
  DropsOtherChromosome = FALSE
INIT Init
NEXT Next
CHECK_DEADLOCK TRUE
