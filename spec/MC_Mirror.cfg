CONSTANTS
  Step = 4
  RefLens = {4}
  RefSlots = 4
  QryLens = {3}
  QrySlots = 3
  PeakCounts = {2}
  PeakSet <- PeaksM
  MsSet = {2}
  BsSet = {2}
  SjSet = {0}
  Scale = 1
  ReverseNegatesQueryDistance = FALSE
  ComparePolicy = "nearest_with_pairs"
  TrimGuard = FALSE
INIT Init
NEXT Next
INVARIANT Inv_C11
INVARIANT Inv_NoAbort
CHECK_DEADLOCK FALSE
