----------------------------- MODULE MC_Pipeline -----------------------------
(* (A) exhaustive on abstract rows: for every set of first / second pass rows of up to NQ queries on two     *)
(* references and every outcome of the join, the files emitted by the four modes satisfy the C05 file      *)
(* clauses and the C08 file relations.                                                                      *)
EXTENDS Pipeline

SpansSmall == {<<0, 10>>, <<30, 40>>}
CONSTANTS NQ, Confs, FirstConfs, Spans, MaxDiff, MaxSecond

VARIABLES first, second, joinOK, runs, pc
vars == <<first, second, joinOK, runs, pc>>

Tok(q, p, k) == <<<<q * 10 + p, k>>>>
Row(q, r, o, c, sp, rest, k) == [q |-> q, r |-> r, ori |-> o, conf |-> c, rs |-> sp[1], re |-> sp[2], rest |-> rest,
                                 pairs |-> Tok(q, IF rest = "True" THEN 2 ELSE 1, k), qs |-> 0, qe |-> 0, hit |-> ""]
RowSet(q, rest, k) == {Row(q, r, o, c, sp, rest, k) : r \in {1, 2}, o \in {"+", "-"},
                        c \in (IF rest = "True" THEN Confs ELSE FirstConfs), sp \in Spans}

JoinRow(a, b) == [q |-> a.q, r |-> a.r, ori |-> a.ori, conf |-> a.conf + b.conf, rs |-> MinV(a.rs, b.rs),
                  re |-> MaxV(a.re, b.re), rest |-> "False", pairs |-> a.pairs \o b.pairs, qs |-> 0, qe |-> 0,
                  hit |-> "j"]
\* 'best' hands a second-pass row that outscores the first-pass row to the resolver twice: joined with itself it comes back
\* as the same record with AlignedRest False (single segment), or the join is refused (several segments: not collinear)
JoinOf(a, b) == IF ~joinOK[a.q] THEN NoRow ELSE IF a = b THEN [a EXCEPT !.rest = "False"] ELSE JoinRow(a, b)

Init == /\ first = <<>> /\ second = <<>> /\ runs = <<>> /\ pc = "gen1"
        /\ joinOK \in [1..NQ -> BOOLEAN]
\* first-pass rows in query order: at most one per query (the coordinator yields one row per task)
Gen1 == /\ pc = "gen1"
        /\ \E q \in ((IF first = <<>> THEN 0 ELSE first[Len(first)].q) + 1)..NQ : \E x \in RowSet(q, "False", 0) :
              first' = Append(first, x)
        /\ UNCHANGED <<second, joinOK, runs, pc>>
Gen1Done == pc = "gen1" /\ pc' = "gen2" /\ UNCHANGED <<first, second, joinOK, runs>>
\* second-pass rows: up to two fragments of every query that has a first-pass row
Gen2 == /\ pc = "gen2" /\ Len(second) < 2 * Len(first) /\ Len(second) < MaxSecond
        /\ \E j \in 1..Len(first) : \E x \in RowSet(first[j].q, "True", Len(second) + 1) :
              /\ (IF second = <<>> THEN TRUE ELSE second[Len(second)].q <= x.q)
              /\ Cardinality({i \in 1..Len(second) : second[i].q = x.q}) < 2
              /\ second' = Append(second, x)
        /\ UNCHANGED <<first, joinOK, runs, pc>>
Gen2Done == pc = "gen2" /\ pc' = "emit" /\ UNCHANGED <<first, second, joinOK, runs>>
EmitAll == /\ pc = "emit"
           /\ runs' = [best |-> Emit("best", first, second, MaxDiff, JoinOf),
                       separate |-> Emit("separate", first, second, MaxDiff, JoinOf),
                       joined |-> Emit("joined", first, second, MaxDiff, JoinOf),
                       all |-> Emit("all", first, second, MaxDiff, JoinOf)]
           /\ pc' = "done" /\ UNCHANGED <<first, second, joinOK>>
Next == Gen1 \/ Gen1Done \/ Gen2 \/ Gen2Done \/ EmitAll

FileClauses ==
    C05_File_Failed(runs.best.main, TRUE) \cup C05_File_Failed(runs.separate.main, TRUE)
    \cup C05_File_Failed(runs.joined.main, TRUE) \cup C05_File_Failed(runs.all.main, TRUE)
    \cup C05_File_Failed(runs.separate.f1, FALSE) \cup C05_File_Failed(runs.all.f1, FALSE)
    \cup C05_File_Failed(runs.all.f2, FALSE)
    \cup C05_BestMode_Failed(runs.best.main, runs.all.f1)
    \cup C05_BestOfPasses_Failed(runs.best.main, runs.all.main, runs.all.f1, runs.all.f2)
Inv_C05 == pc = "done" => FileClauses = {}
\* the relations among modes; the gap clause is about Overlap, the pairs clauses are trivial on tokens
Inv_C08 == pc = "done" => C08_Failed(runs, MaxDiff) \subseteq {"reference_gap_at_most_maxDifference"}
=============================================================================
