CONSTANTS
  NR = 8
  NQ = 8
  LastRunNeedsTwoOps = FALSE
INIT Init
NEXT Next
INVARIANT Inv_C03
INVARIANT Inv_Text
CHECK_DEADLOCK FALSE
