CONSTANTS
  RefLens = {3, 4}
  RefMax = 6
  QryLens = {2, 3}
  QryMax = 4
  PeakCounts = {2, 3}
  PeakSet <- PeaksQuick
  MaxDSet = {1, 2}
  MsSet = {2, 3}
  BsSet = {2}
  SjSet = {1}
  Scale = 360360
  ReverseNegatesQueryDistance = FALSE
  ComparePolicy = "nearest_with_pairs"
  TrimGuard = FALSE
INIT Init
NEXT Next
INVARIANT Reach_OnePairLeft
CHECK_DEADLOCK TRUE
