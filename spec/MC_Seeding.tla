----------------------------- MODULE MC_Seeding -----------------------------
(* (A) exhaustive on small maps: the seeding state machine against its contract, the Dice reading of the      *)
(* correlation, and the lemmas behind C06 (planted copy) and C11 (mirror image = reverse strand).             *)
EXTENDS Seeding, Json, IOUtils

CONSTANTS RefMax, RefMaxLabels, QryMax, ResSet, BlurSet, MdFactors, PCounts, TailSet

Init == \E r \in ResSet, b \in BlurSet, f \in MdFactors, p \in PCounts, rv \in BOOLEAN :
           /\ inp = [ref |-> [len |-> 0, pos |-> <<>>], qry |-> [len |-> 1, pos |-> <<0>>],
                     rev |-> rv, res |-> r, blur |-> b, md |-> f * r, pcount |-> p]
           /\ rs = <<>> /\ qs = <<>> /\ x = <<>> /\ cand = {} /\ done = {} /\ peaks = {} /\ empty = FALSE
           /\ pc = "genr"
GenRef == /\ pc = "genr" /\ Len(inp.ref.pos) < RefMaxLabels
          /\ \E p \in (IF inp.ref.pos = <<>> THEN 0 ELSE LastOf(inp.ref.pos) + 1)..RefMax :
                inp' = [inp EXCEPT !.ref.pos = Append(@, p)]
          /\ UNCHANGED <<rs, qs, x, cand, done, peaks, empty, pc>>
GenRefDone == /\ pc = "genr" /\ Len(inp.ref.pos) >= 1
              /\ \E tl \in TailSet : inp' = [inp EXCEPT !.ref.len = LastOf(inp.ref.pos) + 1 + tl]
              /\ pc' = "genq" /\ UNCHANGED <<rs, qs, x, cand, done, peaks, empty>>
GenQry == /\ pc = "genq"
          /\ \E p \in (LastOf(inp.qry.pos) + 1)..QryMax :
                inp' = [inp EXCEPT !.qry.pos = Append(@, p), !.qry.len = p + 1]
          /\ UNCHANGED <<rs, qs, x, cand, done, peaks, empty, pc>>
GenQryDone == pc = "genq" /\ pc' = "start" /\ UNCHANGED <<inp, rs, qs, x, cand, done, peaks, empty>>
Next == GenRef \/ GenRefDone \/ GenQry \/ GenQryDone \/ SeedNext

\* lemmas, evaluated once per generated input
Inv_Mirror == pc = "start" => MirrorLemma(inp.qry, inp.res, inp.blur)
Inv_MirrorWithoutLattice ==     \* expected to FAIL: the lattice precondition of C11 is needed
    pc = "start" => BitSeq(inp.qry, inp.res, inp.blur, TRUE) = BitSeq(MirrorMap(inp.qry), inp.res, inp.blur, FALSE)
Inv_Planted == pc = "genq" /\ Len(inp.qry.pos) = 1 =>
    \A a \in 1..Len(inp.ref.pos) : \A b \in a..Len(inp.ref.pos) : PlantedLemma(inp.ref, a, b, inp.res, inp.blur)
\* expected to FAIL: off the lattice the true locus of a planted copy is not an exact locus of the bit vectors
Inv_PlantedWithoutLattice == pc = "genq" /\ Len(inp.qry.pos) = 1 =>
    \A a \in 1..Len(inp.ref.pos) : \A b \in a..Len(inp.ref.pos) :
       LET q == [len |-> inp.ref.pos[b] - inp.ref.pos[a] + 1,
                 pos |-> [i \in 1..(b - a + 1) |-> inp.ref.pos[a + i - 1] - inp.ref.pos[a]]]
           xs == Dice(BitSeq(inp.ref, inp.res, inp.blur, FALSE), BitSeq(q, inp.res, inp.blur, FALSE))
       IN IsOne(xs[TrueOffset(inp.ref, a, inp.res)])

ExportInv == pc = "start" => PrintT("X" \o ToJson(inp))
ExportStop == pc \in {"genr", "genq", "start"}
=============================================================================
