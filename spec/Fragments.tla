------------------------------ MODULE Fragments ------------------------------
(***************************************************************************)
(* AlignmentResultRow.getUnalignedFragments (src/alignment/                *)
(* alignment_results.py): which parts of a query go into the second pass.  *)
(* xs : trimmed coordinates of the whole query (deci-bp), qlen its length, *)
(* row = [qs, qe : queryStartPosition / queryEndPosition of the first-pass *)
(*        row (fed coordinates), rev, firstQ, lastQ : query label numbers  *)
(*        of the first / last pair in reference order]                     *)
(* A fragment is [lo, hi : 1-based label range of the slice, shift].       *)
(* Not a listed property by itself; it carries the clause of C02 that      *)
(* second-pass label numbers refer to the whole query: a fragment must be  *)
(* a contiguous slice xs[lo..hi] with shift = lo - 1 and the whole length. *)
(***************************************************************************)
EXTENDS Integers, Sequences, FiniteSets, TLC

AbsV(x) == IF x < 0 THEN -x ELSE x
\* Python list.index(value): 0-based index of the first occurrence; -1 stands for ValueError
IndexOf(xs, v) == IF \E j \in 1..Len(xs) : xs[j] = v THEN (CHOOSE j \in 1..Len(xs) : xs[j] = v /\ \A i \in 1..(j-1) : xs[i] # v) - 1
                  ELSE -1
\* Python slices xs[a:] and xs[:b] with possibly negative / oversized bounds, as 1-based inclusive ranges
From(xs, a) == LET n == Len(xs)  s == IF a < 0 THEN (IF n + a < 0 THEN 0 ELSE n + a) ELSE (IF a > n THEN n ELSE a)
               IN [lo |-> s + 1, hi |-> n]
UpTo(xs, b) == LET n == Len(xs)  e == IF b < 0 THEN (IF n + b < 0 THEN 0 ELSE n + b) ELSE (IF b > n THEN n ELSE b)
               IN [lo |-> 1, hi |-> e]
Size(r) == IF r.hi < r.lo THEN 0 ELSE r.hi - r.lo + 1
Frag(r, shift) == [lo |-> r.lo, hi |-> r.hi, shift |-> shift]

\* result: [status : "ok" | "abort", frags : Seq(fragment)]
FragmentsImpl(xs, qlen, row) ==
    LET n == Len(xs)
        Ok(fs) == [status |-> "ok", frags |-> fs]
    IN IF AbsV(row.qs - row.qe) * 10 > 8 * qlen THEN Ok(<<>>)
       ELSE IF row.qs = 0 \/ row.qe = 0
       THEN IF ~row.rev
            THEN LET i == IndexOf(xs, row.qe) IN
                 IF i < 0 THEN [status |-> "abort", frags |-> <<>>]
                 ELSE IF row.qe = 0 THEN Ok(<<>>)
                 ELSE LET r == From(xs, i - 2) IN Ok(<<Frag(r, n - Size(r))>>)
            ELSE Ok(<<Frag(UpTo(xs, row.lastQ + 3), 0)>>)
       ELSE LET r1 == IF ~row.rev THEN UpTo(xs, IndexOf(xs, row.qs) + 3) ELSE UpTo(xs, row.lastQ + 3)
                r2 == IF ~row.rev THEN From(xs, IndexOf(xs, row.qe) - 2) ELSE From(xs, row.firstQ - 2)
                f1 == Frag(r1, 0)
                f2 == Frag(r2, n - Size(r2))
            IN IF ~row.rev /\ (IndexOf(xs, row.qs) < 0 \/ IndexOf(xs, row.qe) < 0) THEN [status |-> "abort", frags |-> <<>>]
               ELSE IF Size(r1) >= 7 /\ Size(r2) >= 7 THEN Ok(<<f1, f2>>)
               ELSE IF Size(r1) >= 7 THEN Ok(<<f1>>)
               ELSE IF Size(r2) >= 7 THEN Ok(<<f2>>)
               ELSE Ok(<<>>)

\* observed fragment: [x : coordinates, shift, len]
FragmentClauses(xs, qlen, obs) ==
    (IF \A j \in 1..Len(obs) : obs[j].len = qlen THEN {} ELSE {"fragment_keeps_whole_query_length"})
    \cup (IF \A j \in 1..Len(obs) :
               /\ obs[j].shift >= 0 /\ obs[j].shift + Len(obs[j].x) <= Len(xs)
               /\ \A i \in 1..Len(obs[j].x) : obs[j].x[i] = xs[obs[j].shift + i]
          THEN {} ELSE {"fragment_label_numbers_refer_to_the_whole_query"})
=============================================================================
