---------------------------- MODULE Trace_Chainer ----------------------------
(* (C) batch validation of SegmentChainer.chain results recorded from the REAL chainer, with the  *)
(* join matrix observed from the REAL SequentialityScorer.getScore.                                *)
(*  {"segs": [{rs,re,qs,qe,rv,score,empty}], "par": {mnum,mden,variant,scale},                      *)
(*   "J": [[{"inf":b,"v":n}, ...], ...], "res": [indices into segs]}                                 *)
EXTENDS Chainer, Json, IOUtils

Traces == ndJsonDeserialize(IOEnv.TRACE_FILE)
VARIABLE t
Init == \E k \in 1..Len(Traces) : t = k /\ InitWith(Traces[k].segs, Traces[k].par)

Verdict ==
    LET obsJ   == Traces[t].J
        res    == Traces[t].res
        failed == C14_Failed(segs, obsJ, res)
        drift  == (IF result = res THEN {} ELSE {"chain_differs_from_spec"})
                  \cup (IF obsJ = JoinMatrixImpl(segs, par) THEN {} ELSE {"join_scores_differ_from_spec"})
    IN IF failed \cup drift = {} THEN TRUE ELSE PrintT(ToString(<<"V", t, failed, drift>>))

Report == pc = "done" /\ Verdict /\ pc' = "reported" /\ UNCHANGED <<segs, par, order, i, j, cum, prev, best, result, t>>
Terminated == pc = "reported" /\ UNCHANGED <<cvars, t>>
Next == (ChainNext /\ UNCHANGED t) \/ Report \/ Terminated
=============================================================================
