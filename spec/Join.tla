-------------------------------- MODULE Join --------------------------------
(***************************************************************************)
(* AlignmentResultRow.check_overlap / resolve / __isCollinear               *)
(* (src/alignment/alignment_results.py, as repaired by f962953 and          *)
(* bb5248c): joining the first- and the second-pass alignment of a query.   *)
(* A row is [segs : Seq(segment), rev, rs, re] with segments as in          *)
(* Resolver.tla; property: the join clauses of C08 (and C01 on the result). *)
(***************************************************************************)
EXTENDS Resolver

RowPairsOf(segs) == LET f[j \in 0..Len(segs)] == IF j = 0 THEN <<>> ELSE f[j-1] \o FilterSeq(segs[j].pos, IsPair)
                    IN f[Len(segs)]
WithPairs(segs) == FilterSeq(segs, HasPairs)

\* __isCollinear: reference and (fed) query positions of the listed pairs strictly ascend
Collinear(ps) == \A j \in 1..(Len(ps)-1) : X(ps[j].r) < X(ps[j+1].r) /\ X(ps[j].q) < X(ps[j+1].q)

\* resolve(self, rest): [joined : BOOLEAN, segs, status : "ok" | "abort"]
JoinImpl(self, rest) ==
    LET sp == RowPairsOf(self.segs)
        rp == RowPairsOf(rest.segs)
    IN IF sp = <<>> \/ rp = <<>> THEN [joined |-> FALSE, segs |-> <<>>, status |-> "abort"]
       ELSE
       LET selfFirst == X(sp[1].r) < X(rp[1].r)
           first  == IF selfFirst THEN self ELSE rest
           second == IF selfFirst THEN rest ELSE self
           fs == WithPairs(first.segs)
           ss == WithPairs(second.segs)
           res == ResolvePair(fs[Len(fs)], ss[1])
       IN IF res.kind \in {"Abort_NoAlignedPosition", "Abort_TrimEmptied"} THEN [joined |-> FALSE, segs |-> <<>>, status |-> "abort"]
          ELSE LET segs == SubSeq(fs, 1, Len(fs) - 1) \o <<res.L, res.R>> \o SubSeq(ss, 2, Len(ss))
               IN IF Collinear(RowPairsOf(segs)) THEN [joined |-> TRUE, segs |-> segs, status |-> "ok"]
                  ELSE [joined |-> FALSE, segs |-> <<>>, status |-> "ok"]

IdPairs(ps) == [j \in 1..Len(ps) |-> <<Id(ps[j].r), Id(ps[j].q)>>]

-----------------------------------------------------------------------------
(* join clauses of C08 (+ C01 on the joined record) over label-number pairs *)
PSet(s) == {s[j] : j \in 1..Len(s)}
ValidMatchingSet(S, reverse) ==
    \A a, b \in S : a # b => /\ a[1] # b[1] /\ a[2] # b[2]
                             /\ (a[1] < b[1]) = (IF reverse THEN a[2] > b[2] ELSE a[2] < b[2])
Join_Failed(selfPairs, restPairs, reverse, joined, joinedPairs) ==
    IF ~joined THEN {}
    ELSE LET U == PSet(selfPairs) \cup PSet(restPairs)  J == PSet(joinedPairs) IN
         (IF J \subseteq U THEN {} ELSE {"joined_pairs_subset_of_union_of_parts"})
         \cup (IF ValidMatchingSet(U, reverse) => J = U THEN {} ELSE {"joined_is_exactly_the_union_when_union_is_valid"})
         \cup (IF Len(joinedPairs) >= 1 /\ ValidMatchingSet(J, reverse) /\ Cardinality(J) = Len(joinedPairs)
                  /\ \A j \in 1..(Len(joinedPairs)-1) : joinedPairs[j][1] < joinedPairs[j+1][1]
               THEN {} ELSE {"joined_record_is_a_valid_matching"})
=============================================================================
