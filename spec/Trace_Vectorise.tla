--------------------------- MODULE Trace_Vectorise ---------------------------
(* (C) batch validation of vectorisePositions / blur / toRelativeGenomicPositions / selectPeaks results   *)
(* recorded from the REAL functions:  {"kind": "vec"|"seq"|"blur"|"bin"|"sel"|"cpk", "vin": {...}, "obs": ...}        *)
(* "seq" = OpticalMap.getSequence(SequenceGenerator(res, r), rev, start, end): vin carries r and rev as well        *)
EXTENDS Vectorise, Json, IOUtils, SequencesExt

Traces == ndJsonDeserialize(IOEnv.TRACE_FILE)
VARIABLES t, kind
Init == \E j \in 1..Len(Traces) :
          /\ t = j /\ kind = Traces[j].kind /\ vin = Traces[j].vin /\ k = 1 /\ out = <<>>
          /\ ws = IF Traces[j].kind \in {"vec", "seq"} THEN Traces[j].vin.start ELSE 0
          /\ pc = IF Traces[j].kind \in {"vec", "seq"} THEN "loop" ELSE Traces[j].kind
BlurStep == pc = "blur" /\ out' = BlurImpl(vin.v, vin.r) /\ pc' = "done" /\ UNCHANGED <<vin, ws, k>>
BinStep == pc = "bin" /\ out' = ToRel(FloorDiv(vin.x - vin.start, vin.res), vin.res, vin.start) /\ pc' = "done"
           /\ UNCHANGED <<vin, ws, k>>
SeqStep == pc = "done" /\ kind = "seq"
           /\ out' = (IF vin.rev THEN Reverse(BlurImpl(out, vin.r)) ELSE BlurImpl(out, vin.r))
           /\ pc' = "done2" /\ UNCHANGED <<vin, ws, k>>
CpkStep == pc = "cpk" /\ out' = SelectImpl(vin.scores, vin.count) /\ pc' = "done" /\ UNCHANGED <<vin, ws, k>>
SelStep == pc = "sel" /\ out' = SelectImpl(vin.scores, vin.count) /\ pc' = "done" /\ UNCHANGED <<vin, ws, k>>
Verdict ==
    LET obs == Traces[t].obs
        failed == CASE kind = "vec"  -> C16_Vec_Failed(vin, obs)
                    [] kind = "seq"  -> C16_Seq_Failed(vin, vin.r, IF vin.rev THEN Reverse(obs) ELSE obs)
                    [] kind = "blur" -> C16_Blur_Failed(vin.v, vin.r, obs)
                    [] kind = "bin"  -> C16_Bin_Failed(vin.x, vin.res, vin.start, obs)
                    [] kind = "sel"  -> C16_Sel_Failed(vin.scores, vin.count, obs)
                    [] kind = "cpk"  -> C16_Keep_Failed(vin.scores, vin.count, obs)
        drift == IF kind = "cpk"
                 THEN (IF HeightBag(vin.scores, out) = HeightBag(vin.scores, obs) THEN {} ELSE {"kept_heights_differ_from_spec"})
                 ELSE IF out = obs THEN {} ELSE {"result_differs_from_spec"}
    IN IF failed \cup drift = {} THEN TRUE ELSE PrintT(ToString(<<"V", t, failed, drift>>))
Report == pc = (IF kind = "seq" THEN "done2" ELSE "done") /\ Verdict /\ pc' = "reported" /\ UNCHANGED <<vin, ws, k, out, t, kind>>
Terminated == pc = "reported" /\ UNCHANGED <<vvars, t, kind>>
Next == ((VecNext \/ SeqStep \/ BlurStep \/ BinStep \/ SelStep \/ CpkStep) /\ UNCHANGED <<t, kind>>) \/ Report \/ Terminated
=============================================================================
