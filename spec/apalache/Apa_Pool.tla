------------------------------ MODULE Apa_Pool ------------------------------
(***************************************************************************)
(* Typed restatement of Pool.tla for Apalache: an INDUCTIVE invariant of   *)
(* the ordered parallel map (per_task shipping) from which Inv_C09 and     *)
(* Inv_C10 follow, for any number of tasks / workers up to the bound of    *)
(* the generators (not only for the reachable states of a small instance). *)
(*   apalache-mc check --init=IndInit --inv=IndInv   --length=1 ...        *)
(*   apalache-mc check --init=IndInit --inv=Inv_C09  --length=0 ...        *)
(*   apalache-mc check --init=Init    --inv=IndInv   --length=0 ...        *)
(***************************************************************************)
EXTENDS Integers, Sequences, FiniteSets, Apalache

N == 6          \* bound for the generators (tasks 1..N, workers 1..3)
Tasks == 1..N
Workers == 1..3
Payload(t) == t * 100

VARIABLES
    \* @type: Seq(Int);
    order,
    \* @type: Int;
    next,
    \* @type: Int -> Int;
    running,
    \* @type: Int -> { task: Int, payload: Int };
    results,
    \* @type: Seq({ task: Int, payload: Int });
    yielded

\* @type: (Seq(Int)) => Bool;
Distinct(s) == \A i, j \in DOMAIN s : i # j => s[i] # s[j]

Init ==
    /\ order = <<>> \/ order = <<2>> \/ order = <<3, 1>> \/ order = <<1, 2, 3>> \/ order = <<4, 2, 1, 3>>
    /\ next = 1
    /\ running = [w \in Workers |-> 0]
    /\ results = [t \in {} |-> [task |-> 0, payload |-> 0]]
    /\ yielded = <<>>

Take(w) ==
    /\ running[w] = 0 /\ next <= Len(order)
    /\ running' = [running EXCEPT ![w] = order[next]] /\ next' = next + 1
    /\ UNCHANGED <<order, results, yielded>>
Finish(w) ==
    /\ running[w] # 0
    /\ LET t == running[w] IN
       results' = [x \in (DOMAIN results) \union {t} |->
                     IF x = t THEN [task |-> t, payload |-> Payload(t)] ELSE results[x]]
    /\ running' = [running EXCEPT ![w] = 0]
    /\ UNCHANGED <<order, next, yielded>>
Yield ==
    /\ Len(yielded) < Len(order)
    /\ order[Len(yielded) + 1] \in DOMAIN results
    /\ yielded' = Append(yielded, results[order[Len(yielded) + 1]])
    /\ UNCHANGED <<order, next, running, results>>
Next == (\E w \in Workers : Take(w) \/ Finish(w)) \/ Yield

HandedOut == {order[i] : i \in {j \in DOMAIN order : j < next}}
IndInv ==
    /\ Len(order) <= N /\ \A i \in DOMAIN order : order[i] \in Tasks
    /\ Distinct(order)
    /\ next >= 1 /\ next <= Len(order) + 1
    /\ DOMAIN running = Workers
    /\ \A w \in Workers : running[w] = 0 \/ running[w] \in HandedOut
    /\ \A v, w \in Workers : (v # w /\ running[v] # 0) => running[v] # running[w]
    /\ DOMAIN results \subseteq HandedOut
    /\ \A w \in Workers : running[w] \notin DOMAIN results
    /\ \A t \in DOMAIN results : results[t] = [task |-> t, payload |-> Payload(t)]
    /\ Len(yielded) <= Len(order)
    /\ \A i \in DOMAIN yielded : order[i] \in DOMAIN results /\ yielded[i] = results[order[i]]

IndInit ==
    /\ order = Gen(N) /\ next = Gen(1) /\ running = Gen(3) /\ results = Gen(N) /\ yielded = Gen(N)
    /\ IndInv

\* C09: what has been yielded is a prefix of the sequential result; C10: a record is a function of its task
Inv_C09 == /\ Len(yielded) <= Len(order)
           /\ \A i \in DOMAIN yielded : yielded[i] = [task |-> order[i], payload |-> Payload(order[i])]
Inv_C10 == \A i \in DOMAIN yielded : yielded[i].payload = Payload(yielded[i].task)
=============================================================================
