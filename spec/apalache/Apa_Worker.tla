----------------------------- MODULE Apa_Worker -----------------------------
(***************************************************************************)
(* Counter abstraction of Worker.tla (the messages one task dispatches)    *)
(* for Apalache: the peaks themselves are forgotten, only HOW MANY primary *)
(* correlations / peaks / refinements / candidate rows there are is kept.  *)
(* IndInv is an INDUCTIVE invariant - for ANY number of references,        *)
(* any number of peaks per correlation and any peaksCount (unbounded       *)
(* integers, not the 2 references x 0-2 peaks of MC_Worker) - from which   *)
(* the protocol facts follow: at most peaksCount seeds are refined,        *)
(* exactly min(peaksCount, number of peaks) of them before any candidate   *)
(* row exists, one row per refinement, the collective message after the    *)
(* last row, and a task is finished only after all 2 x references          *)
(* correlations.                                                           *)
(*   apalache-mc check --init=Init    --inv=IndInv      --length=0         *)
(*   apalache-mc check --init=IndInit --inv=IndInv      --length=1         *)
(*   apalache-mc check --init=IndInit --inv=Inv_Protocol --length=0        *)
(***************************************************************************)
EXTENDS Integers

VARIABLES
    \* @type: Int;
    nrefs,
    \* @type: Int;
    pcount,
    \* @type: Int;
    ci,
    \* @type: Int;
    nprim,
    \* @type: Int;
    nsel,
    \* @type: Int;
    ri,
    \* @type: Int;
    ncand,
    \* @type: Bool;
    multi,
    \* @type: Str;
    pc

Min(a, b) == IF a < b THEN a ELSE b

Init == /\ nrefs \in Nat /\ pcount \in Nat /\ nrefs >= 0 /\ pcount >= 0
        /\ ci = 0 /\ nprim = 0 /\ nsel = 0 /\ ri = 0 /\ ncand = 0 /\ multi = FALSE /\ pc = "correlate"

\* one primary correlation with k >= 0 peaks (each correlation keeps at most peaksCount)
Correlate == /\ pc = "correlate" /\ ci < 2 * nrefs
             /\ \E k \in Nat : k <= pcount /\ nprim' = nprim + k
             /\ ci' = ci + 1 /\ UNCHANGED <<nrefs, pcount, nsel, ri, ncand, multi, pc>>
Select == /\ pc = "correlate" /\ ci = 2 * nrefs
          /\ nsel' = Min(pcount, nprim) /\ pc' = "refine"
          /\ UNCHANGED <<nrefs, pcount, ci, nprim, ri, ncand, multi>>
Refine == /\ pc = "refine" /\ ri < nsel /\ ri' = ri + 1
          /\ UNCHANGED <<nrefs, pcount, ci, nprim, nsel, ncand, multi, pc>>
RefineDone == /\ pc = "refine" /\ ri = nsel /\ pc' = "candidates"
              /\ UNCHANGED <<nrefs, pcount, ci, nprim, nsel, ri, ncand, multi>>
NoCandidates == /\ pc = "candidates" /\ nsel = 0 /\ pc' = "done"
                /\ UNCHANGED <<nrefs, pcount, ci, nprim, nsel, ri, ncand, multi>>
Row == /\ pc = "candidates" /\ nsel > 0 /\ ncand < nsel /\ ncand' = ncand + 1
       /\ UNCHANGED <<nrefs, pcount, ci, nprim, nsel, ri, multi, pc>>
Multi == /\ pc = "candidates" /\ nsel > 0 /\ ncand = nsel /\ multi' = TRUE /\ pc' = "pick"
         /\ UNCHANGED <<nrefs, pcount, ci, nprim, nsel, ri, ncand>>
PickBest == /\ pc = "pick" /\ pc' = "done"
            /\ UNCHANGED <<nrefs, pcount, ci, nprim, nsel, ri, ncand, multi>>
Next == Correlate \/ Select \/ Refine \/ RefineDone \/ NoCandidates \/ Row \/ Multi \/ PickBest

IndInv ==
    /\ nrefs >= 0 /\ pcount >= 0 /\ ci >= 0 /\ ci <= 2 * nrefs /\ nprim >= 0 /\ nprim <= ci * pcount
    /\ pc \in {"correlate", "refine", "candidates", "pick", "done"}
    /\ ri >= 0 /\ ri <= nsel /\ ncand >= 0 /\ ncand <= ri /\ nsel >= 0 /\ nsel <= pcount
    /\ (pc = "correlate" => nsel = 0 /\ ri = 0 /\ ncand = 0 /\ ~multi)
    /\ (pc # "correlate" => ci = 2 * nrefs /\ nsel = Min(pcount, nprim))
    /\ (pc = "refine" => ncand = 0 /\ ~multi)
    /\ (pc \in {"candidates", "pick", "done"} => ri = nsel)
    /\ (pc = "candidates" => ~multi)
    /\ (pc = "pick" => multi /\ ncand = nsel /\ nsel > 0)
    /\ (pc = "done" => (nsel = 0 /\ ncand = 0 /\ ~multi) \/ (multi /\ ncand = nsel /\ nsel > 0))
    /\ (multi => ncand = nsel /\ nsel > 0)
IndInit == /\ nrefs \in Int /\ pcount \in Int /\ ci \in Int /\ nprim \in Int /\ nsel \in Int /\ ri \in Int /\ ncand \in Int
           /\ multi \in BOOLEAN /\ pc \in {"correlate", "refine", "candidates", "pick", "done"}
           /\ IndInv

\* the protocol facts (Worker!Inv_Protocol, Worker!Inv_C05's "at most peaksCount candidates", C16's count clause)
Inv_Protocol ==
    /\ ri <= nsel /\ ncand <= ri /\ ncand <= pcount
    /\ (multi => ncand = nsel /\ nsel > 0)
    /\ (pc = "done" /\ nsel > 0 => multi /\ ri = nsel /\ ci = 2 * nrefs)
    /\ (pc \in {"candidates", "pick", "done"} => ri = Min(pcount, nprim))
=============================================================================
