CONSTANTS
  NR = 7
  NQ = 7
  LastRunNeedsTwoOps = FALSE
INIT Init
NEXT Next
INVARIANT Inv_C03
INVARIANT Inv_Text
CHECK_DEADLOCK FALSE
