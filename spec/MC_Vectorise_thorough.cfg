CONSTANTS
  PosMax = 12
  PosMaxLen = 5
  ResSet = {1, 2, 3, 4}
  StartSet <- StartsV
  EndSet = {0, 1, 3, 5, 6, 8, 9, 11}
  BlurLen = 7
  BlurRadii = {0, 1, 2, 3}
  BinRes = {1, 2, 3, 4, 5, 6, 7, 8, 9, 10, 11, 12}
  BinStarts <- BinStartsV
  BinXs <- BinXsV
  SelLen = 5
  SelScores = {1, 2, 3, 4}
  SelCounts = {0, 1, 2, 3, 4}
INIT Init
NEXT Next
INVARIANT Inv_C16
INVARIANT Inv_VecFun
INVARIANT Inv_BlurFast
CHECK_DEADLOCK FALSE
