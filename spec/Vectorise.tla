----------------------------- MODULE Vectorise -----------------------------
(***************************************************************************)
(* src/correlation/vectorise.py (vectorisePositions, blur),                *)
(* optical_map.py (toRelativeGenomicPositions) and peaks_selector.py       *)
(* (PeaksSelector.selectPeaks); property C16.                              *)
(*                                                                         *)
(* vectorise input: [pos : ascending label coordinates (non-empty),        *)
(*                   res : resolution >= 1, start : Int,                   *)
(*                   end : Int, 0 meaning "not given" (end or positions[-1])]*)
(***************************************************************************)
EXTENDS Integers, Sequences, FiniteSets, TLC

Last(s) == s[Len(s)]
EffEnd(in) == IF in.end = 0 THEN Last(in.pos) ELSE in.end

-----------------------------------------------------------------------------
(* vectorisePositions as a state machine: one action per `yield` / `continue` *)
VARIABLES vin, ws, k, out, pc
vvars == <<vin, ws, k, out, pc>>
InitWith(in) == vin = in /\ ws = in.start /\ k = 1 /\ out = <<>> /\ pc = "loop"

we == ws + vin.res
Skip ==      \* position < window_start: continue
    /\ pc = "loop" /\ k <= Len(vin.pos) /\ vin.pos[k] < ws
    /\ k' = k + 1 /\ UNCHANGED <<vin, ws, out, pc>>
EmitZero ==  \* while position >= window_end: advance, yield 0, stop when the window starts beyond end
    /\ pc = "loop" /\ k <= Len(vin.pos) /\ vin.pos[k] >= ws /\ vin.pos[k] >= we
    /\ ws' = ws + vin.res /\ out' = Append(out, 0)
    /\ pc' = IF ws + vin.res > EffEnd(vin) THEN "done" ELSE "loop"
    /\ UNCHANGED <<vin, k>>
EmitOne ==
    /\ pc = "loop" /\ k <= Len(vin.pos) /\ vin.pos[k] >= ws /\ vin.pos[k] < we
    /\ out' = Append(out, 1) /\ ws' = ws + vin.res /\ k' = k + 1
    /\ UNCHANGED <<vin, pc>>
Exhausted == pc = "loop" /\ k > Len(vin.pos) /\ pc' = "done" /\ UNCHANGED <<vin, ws, k, out>>
VecNext == Skip \/ EmitZero \/ EmitOne \/ Exhausted
Done == pc = "done"

\* the same loop as one recursive operator (used where a whole vector is needed inside another specification: Seeding's
\* refinement window); MC_Vectorise checks that it agrees with the state machine on every input (Inv_VecFun)
RECURSIVE VecRun(_, _, _, _)
VecRun(in, w, kk, acc) ==
    IF kk > Len(in.pos) THEN acc
    ELSE IF in.pos[kk] < w THEN VecRun(in, w, kk + 1, acc)
    ELSE IF in.pos[kk] >= w + in.res
         THEN (IF w + in.res > EffEnd(in) THEN Append(acc, 0) ELSE VecRun(in, w + in.res, kk, Append(acc, 0)))
         ELSE VecRun(in, w + in.res, kk + 1, Append(acc, 1))
VecFun(in) == VecRun(in, in.start, 1, <<>>)

-----------------------------------------------------------------------------
(* blur: OR of the vector with itself shifted by 1..radius in both directions, truncated to the length *)
BlurImpl(v, r) ==
    LET n == Len(v)
        at(s, i) == IF i >= 1 /\ i <= Len(s) THEN s[i] ELSE 0
        left(sh)  == [i \in 1..(IF n > sh THEN n - sh ELSE 0) |-> v[i + sh]]     \* vector[shift:]
        right(sh) == [i \in 1..(n + sh) |-> IF i <= sh THEN 0 ELSE v[i - sh]]     \* shift * [0] + vector
    IN [i \in 1..n |-> IF v[i] = 1 \/ \E sh \in 1..r : at(left(sh), i) = 1 \/ at(right(sh), i) = 1 THEN 1 ELSE 0]

\* the same function without building the shifted copies (used on long vectors by Seeding.tla); MC_Vectorise checks
\* BlurFast = BlurImpl on every vector it enumerates (Inv_BlurFast)
BlurFast(v, r) == [i \in 1..Len(v) |-> IF \E j \in (i - r)..(i + r) : j >= 1 /\ j <= Len(v) /\ v[j] = 1 THEN 1 ELSE 0]

\* toRelativeGenomicPositions
CeilHalf(res) == (res + 1) \div 2
ToRel(bin, res, start) == bin * res + (CeilHalf(res) - 1 + start)

\* selectPeaks: stable sort by score, descending, first `count`
SelectImpl(scores, count) ==     \* returns indices into scores
    LET n == Len(scores)
        rank(i) == Cardinality({j \in 1..n : scores[j] > scores[i] \/ (scores[j] = scores[i] /\ j < i)}) + 1
        m == IF count < n THEN count ELSE n
    IN [p \in 1..m |-> CHOOSE i \in 1..n : rank(i) = p]

-----------------------------------------------------------------------------
(* C16 clauses *)
FloorDiv(a, b) == IF a >= 0 THEN a \div b ELSE -((-a + b - 1) \div b)

C16_Vec_Failed(in, obs) ==
    LET n == Len(obs)
        inBin(i) == \E j \in 1..Len(in.pos) : in.start + i * in.res <= in.pos[j] /\ in.pos[j] < in.start + (i + 1) * in.res
    IN (IF \A i \in 1..n : obs[i] \in {0, 1} THEN {} ELSE {"bits_are_0_or_1"})
     \cup (IF \A i \in 0..(n-1) : (obs[i+1] = 1) <=> inBin(i) THEN {} ELSE {"bit_set_iff_label_in_bin"})
     \cup (IF \A j \in 1..Len(in.pos) :
                 (in.start <= in.pos[j] /\ in.pos[j] <= EffEnd(in)) => FloorDiv(in.pos[j] - in.start, in.res) < n
           THEN {} ELSE {"every_label_between_start_and_end_is_covered"})

\* OpticalMap.getSequence / SequenceGenerator.positionsToSequence: the blurred vector of a window (strand already undone)
C16_Seq_Failed(in, r, obs) ==
    LET n == Len(obs)
        inBin(i) == \E j \in 1..Len(in.pos) : in.start + i * in.res <= in.pos[j] /\ in.pos[j] < in.start + (i + 1) * in.res
    IN (IF \A i \in 1..n : obs[i] \in {0, 1} THEN {} ELSE {"bits_are_0_or_1"})
     \cup (IF \A i \in 0..(n-1) : (obs[i+1] = 1) <=> \E j \in 0..(n-1) : inBin(j) /\ i - j <= r /\ j - i <= r
           THEN {} ELSE {"sequence_bit_iff_label_within_radius_of_bin"})
     \cup (IF \A j \in 1..Len(in.pos) :
                 (in.start <= in.pos[j] /\ in.pos[j] <= EffEnd(in)) => FloorDiv(in.pos[j] - in.start, in.res) < n
           THEN {} ELSE {"every_label_between_start_and_end_is_covered"})

C16_Blur_Failed(v, r, obs) ==
    (IF Len(obs) = Len(v) THEN {} ELSE {"blur_keeps_length"})
    \cup (IF Len(obs) = Len(v) /\ \A i \in 1..Len(v) :
                 (obs[i] = 1) <=> \E j \in 1..Len(v) : v[j] = 1 /\ j - i <= r /\ i - j <= r
          THEN {} ELSE {"blur_bit_iff_original_within_radius"})

C16_Bin_Failed(x, res, start, obs) ==   \* obs = toRelativeGenomicPositions(floor((x - start) / res), res, start)
    LET bin == FloorDiv(x - start, res)
        lo  == start + bin * res
    IN (IF 2 * (obs - x) <= res /\ 2 * (x - obs) <= res THEN {} ELSE {"label_located_within_half_resolution"})
     \cup (IF obs = lo + ((res - 1) \div 2) THEN {} ELSE {"bin_centre"})

\* chosen = scores of the selected seeds in the order returned
C16_Sel_Failed(scores, count, chosenIdx) ==
    LET n == Len(scores)
        m == IF count < n THEN count ELSE n
    IN (IF Len(chosenIdx) = m THEN {} ELSE {"keeps_min_count_all"})
     \cup (IF \A a, b \in 1..Len(chosenIdx) : a # b => chosenIdx[a] # chosenIdx[b] THEN {} ELSE {"each_peak_once"})
     \cup (IF \A a \in 1..(Len(chosenIdx)-1) : scores[chosenIdx[a]] >= scores[chosenIdx[a+1]]
           THEN {} ELSE {"descending_order"})
     \cup (IF \A a \in 1..Len(chosenIdx) : \A j \in 1..n :
                 (\A b \in 1..Len(chosenIdx) : chosenIdx[b] # j) => scores[j] <= scores[chosenIdx[a]]
           THEN {} ELSE {"highest_scoring_kept"})

\* CorrelationResult.createPeaks: the peaksCount highest peaks of ONE correlation are kept (numpy argpartition: the order
\* of the kept ones and the choice among equal heights are unspecified)
C16_Keep_Failed(scores, count, chosenIdx) ==
    LET n == Len(scores)
        m == IF count < n THEN count ELSE n
    IN (IF Len(chosenIdx) = m THEN {} ELSE {"keeps_min_count_all"})
     \cup (IF \A a \in 1..Len(chosenIdx) : chosenIdx[a] \in 1..n THEN {} ELSE {"kept_peak_is_one_of_the_peaks"})
     \cup (IF \A a, b \in 1..Len(chosenIdx) : a # b => chosenIdx[a] # chosenIdx[b] THEN {} ELSE {"each_peak_once"})
     \cup (IF \A a \in 1..Len(chosenIdx) : chosenIdx[a] \in 1..n =>
                 \A j \in 1..n : (\A b \in 1..Len(chosenIdx) : chosenIdx[b] # j) => scores[j] <= scores[chosenIdx[a]]
           THEN {} ELSE {"highest_peaks_of_the_correlation_kept"})
HeightBag(scores, idx) == [h \in {scores[j] : j \in 1..Len(scores)} |->
                              Cardinality({a \in 1..Len(idx) : idx[a] \in 1..Len(scores) /\ scores[idx[a]] = h})]
=============================================================================
