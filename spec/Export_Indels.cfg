CONSTANTS
  MaxCalls = 3
  Chrs = {1, 2}
  Coords = {0, 1, 3, 4, 6}
  Blur = 2
  DropsOtherChromosome = FALSE
INIT Init
NEXT Next
INVARIANT ExportInv
CONSTRAINT ExportStop
CHECK_DEADLOCK FALSE
