CONSTANTS
  Step = 4
  RefLens = {3, 4, 5}
  RefSlots = 5
  QryLens = {2, 3}
  QrySlots = 3
  PeakCounts = {2, 3}
  PeakSet <- PeaksM
  MsSet = {2}
  BsSet = {2}
  SjSet = {0}
  Scale = 1
  ReverseNegatesQueryDistance = FALSE
  ComparePolicy = "nearest_with_pairs"
  TrimGuard = FALSE
INIT Init
NEXT Next
INVARIANT Inv_C11
INVARIANT Inv_NoAbort
CHECK_DEADLOCK FALSE
