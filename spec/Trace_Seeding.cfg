INIT Init
NEXT TraceNext
CHECK_DEADLOCK TRUE
