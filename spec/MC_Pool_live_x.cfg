CONSTANTS
  Tasks = {1, 2, 3}
  Workers = {1, 2}
  Calls <- CallsFn
  Ship = "per_task"
SPECIFICATION NoFairSpec
PROPERTY Prop_Terminates
CHECK_DEADLOCK FALSE
