------------------------------ MODULE Trace_Row ------------------------------
(* (C) batch validation of HitEnum strings produced by the REAL AlignmentResultRow.cigarString   *)
(* (component level) or read from XMAP records written by the real pipeline.                     *)
(*   {"pairs": [[r,q],...], "rev": bool, "hit": [character codes]}                                *)
EXTENDS Row, Json, IOUtils

Traces == ndJsonDeserialize(IOEnv.TRACE_FILE)
VARIABLE t
Init == \E j \in 1..Len(Traces) : t = j /\ InitWith(Traces[j].pairs, Traces[j].rev)

Verdict ==
    LET hit    == Traces[t].hit
        failed == IF pairs = <<>> \/ ValidMatching(pairs, rev) THEN C03_Failed(pairs, rev, hit)
                  ELSE {}    \* C03 quantifies over valid matchings; C01 judges validity
        drift  == IF ResultText = hit THEN {} ELSE {"hitenum_differs_from_spec"}
    IN IF failed \cup drift = {} THEN TRUE ELSE PrintT(ToString(<<"V", t, failed, drift>>))

Report == pc = "done" /\ Verdict /\ pc' = "reported"
          /\ UNCHANGED <<pairs, rev, ps, ri, k, prevQ, ops, a, cnt, prevOp, runs, t>>
\* a stuck trace is a TLC deadlock error (machinery failure), never a silent pass
Terminated == pc = "reported" /\ UNCHANGED <<rvars, t>>
Next == (RowNext /\ UNCHANGED t) \/ Report \/ Terminated
=============================================================================
