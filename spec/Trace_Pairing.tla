---------------------------- MODULE Trace_Pairing ----------------------------
(* (C) batch validation of AlignerEngine.align results recorded from the REAL engine.          *)
(*  {"in": {ref, qry, qlen, shift, start, end, maxD, rev},                                      *)
(*   "obs": [{"k": "P"|"R"|"Q", "r": [id, x], "q": [id, x], "sh": n}, ...]}                      *)
EXTENDS Pairing, Json, IOUtils

Traces == ndJsonDeserialize(IOEnv.TRACE_FILE)
VARIABLE t
Init == \E j \in 1..Len(Traces) : t = j /\ InitWith(Traces[j]["in"])

Verdict ==
    LET obs    == Traces[t].obs
        failed == IF InDomain(inp) THEN C12_Failed(inp, obs) ELSE {"input_outside_domain"}
        drift  == IF out = obs THEN {} ELSE {"positions_differ_from_spec"}
    IN IF failed \cup drift = {} THEN TRUE ELSE PrintT(ToString(<<"V", t, failed, drift>>))

Report == pc = "done" /\ Verdict /\ pc' = "reported" /\ UNCHANGED <<inp, win, qls, cand, keptQ, keptR, unp, out, t>>
Terminated == pc = "reported" /\ UNCHANGED <<pvars, t>>
Next == (PairNext /\ UNCHANGED t) \/ Report \/ Terminated
=============================================================================
