CONSTANTS
  NR = 8
  NQ = 8
  LastRunNeedsTwoOps = FALSE
INIT ExportInit
NEXT ExportNext
CHECK_DEADLOCK FALSE
