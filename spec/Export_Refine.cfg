CONSTANTS
  RefMax = 6
  RefMaxLabels = 3
  QryMax = 3
  ResSet = {1, 2}
  BlurSet = {0, 1}
  PeakSet = {0, 2, 5}
  MarginFactors = {0, 1, 3}
  PtSet = {0, 1, 2}
INIT Init
NEXT Next
INVARIANT ExportInv
CONSTRAINT ExportStop
CHECK_DEADLOCK FALSE
