CONSTANTS
  Tasks = {1, 2, 3}
  Workers = {1, 2}
  Calls <- CallsFn
  Ship = "per_task"
SPECIFICATION LiveSpec
PROPERTY Prop_Terminates
PROPERTY Prop_EveryTaskDelivered
CHECK_DEADLOCK FALSE
