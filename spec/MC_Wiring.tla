------------------------------ MODULE MC_Wiring ------------------------------
(* (A) for every subset of given options with sentinel values the modelled parse/create puts each given value into  *)
(* the fields it feeds and nowhere else; every field is fed by exactly one option and every option feeds a field.    *)
EXTENDS Wiring
CONSTANTS Given, Sentinels
Init == \E S \in SUBSET Given : \E c \in [S -> Sentinels] : InitWith(c)
Next == WNext
Inv_C04_Wiring == Done => C04_Wiring_Failed(cli, comp) = {} /\ DefaultDrift(cli, comp) = {}
Inv_EveryOptionFeedsAField == \A o \in Options : \E f \in Fields : Feeds[f] = o
Inv_GivenValueOnlyWhereFed == Done => \A f \in Fields : \A o \in DOMAIN cli :
                                  (comp[f] = cli[o] /\ cli[o] # Default[Feeds[f]]) => (Feeds[f] = o \/ cli[Feeds[f]] = cli[o])
=============================================================================
