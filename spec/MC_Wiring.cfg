CONSTANTS
  Given = {"r1", "sp", "su", "ms", "bs", "d", "sj", "p"}
  Sentinels = {7, 11}
INIT Init
NEXT Next
INVARIANT Inv_C04_Wiring
INVARIANT Inv_EveryOptionFeedsAField
INVARIANT Inv_GivenValueOnlyWhereFed
CHECK_DEADLOCK FALSE
