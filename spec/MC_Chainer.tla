----------------------------- MODULE MC_Chainer -----------------------------
(* (A) exhaustive: the chainer's dynamic programme as modelled satisfies C14 on every set of up to   *)
(* MaxSegs lattice segments (coordinates 0..C, near-diagonal offsets up to Off), both strands, both   *)
(* join variants, every multiplier in Mults.                                                          *)
EXTENDS Chainer, Json, IOUtils

MultsAll == {<<0, 1>>, <<1, 2>>, <<1, 1>>, <<2, 1>>}
MultsOne == {<<1, 1>>}
CONSTANTS C, Off, MaxSegs, Scores, Variants, Mults, Scale

Shapes == {sh \in [rs : 0..C, re : 0..C, qs : 0..C, qe : 0..C] :
              /\ AbsV(sh.qs - sh.rs) <= Off /\ AbsV(sh.qe - sh.re) <= Off
              /\ \/ (sh.rs = sh.re /\ sh.qs = sh.qe)
                 \/ (sh.rs < sh.re /\ sh.qs < sh.qe)}
Code(s) == ((((s.rs * (C+1) + s.re) * (C+1) + s.qs) * (C+1) + s.qe) * 100) + (s.score \div Scale)
MkSeg(sh, sc, minus) == [rs |-> sh.rs, re |-> sh.re, qs |-> sh.qs, qe |-> sh.qe,
                         rv |-> (minus /\ sh.rs < sh.re), score |-> sc * Scale, empty |-> FALSE]
EmptySegRec == [rs |-> 0, re |-> 0, qs |-> 0, qe |-> 0, rv |-> FALSE, score |-> 0, empty |-> TRUE]

VARIABLE minus   \* strand '-' : multi-pair segments have descending query label numbers
Init == \E v \in Variants, m \in Mults, mi \in BOOLEAN :
          /\ minus = mi
          /\ segs = <<>> /\ par = [mnum |-> m[1], mden |-> m[2], variant |-> v, scale |-> Scale]
          /\ order = <<>> /\ i = 0 /\ j = 0 /\ cum = <<>> /\ prev = <<>> /\ best = 1 /\ result = <<>>
          /\ pc = "gen"
\* segments are appended in non-decreasing canonical order (the set, not its permutations, is enumerated)
GenSeg == /\ pc = "gen" /\ Len(segs) < MaxSegs
          /\ \E sh \in Shapes, sc \in Scores :
               LET s == MkSeg(sh, sc, minus) IN
               /\ (IF segs = <<>> THEN TRUE ELSE Code(segs[Len(segs)]) <= Code(s))
               /\ segs' = Append(segs, s)
          /\ UNCHANGED <<par, order, i, j, cum, prev, best, result, pc, minus>>
GenDone == /\ pc = "gen" /\ Len(segs) >= 1
           /\ \E e \in BOOLEAN : segs' = IF e THEN <<EmptySegRec>> \o segs ELSE segs
           /\ pc' = "preorder"
           /\ UNCHANGED <<par, order, i, j, cum, prev, best, result, minus>>
Next == GenSeg \/ GenDone \/ (ChainNext /\ UNCHANGED minus)

Inv_C14 == Done => C14_Holds(segs, JoinMatrixImpl(segs, par), result)
\* as Inv_C14 but without the overlap clause on strand '-': what holds at the pinned commit (deviation D10)
Inv_C14_exceptOverlap == Done => C14_Failed(segs, JoinMatrixImpl(segs, par), result) \subseteq {"no_overlap_beyond_half_of_shorter"}

ExportInv == pc = "preorder" => PrintT("X" \o ToJson([segs |-> segs, par |-> par]))
ExportStop == pc \in {"gen", "preorder"}
=============================================================================
