------------------------------- MODULE MC_Pool -------------------------------
EXTENDS Pool, Json
CallsFn == [t \in Tasks |-> 1 + (t % 3)]
\* termination: the map always delivers every result; a schedule that gets stuck is a TLC deadlock error
Terminated == AllDone /\ UNCHANGED pvars
Next == PoolNext \/ Terminated
N == Cardinality(Tasks)
InitFull == /\ order = [i \in 1..N |-> i]
            /\ next = 1 /\ running = [w \in Workers |-> 0] /\ iter = [w \in Workers |-> ParentCounter]
            /\ results = <<>> /\ yielded = <<>> /\ finishOrder = <<>>
\* (B) schedules for the real pool: every completion order that is possible with this many workers
ExportInv == AllDone /\ Len(order) = Cardinality(Tasks) /\ order = [i \in 1..Len(order) |-> i]
                => PrintT("X" \o ToJson(finishOrder))
=============================================================================
