------------------------------- MODULE MC_Pool -------------------------------
EXTENDS Pool, Json
CallsFn == [t \in Tasks |-> 1 + (t % 3)]
\* termination: the map always delivers every result; a schedule that gets stuck is a TLC deadlock error
Terminated == AllDone /\ UNCHANGED pvars
Next == PoolNext \/ Terminated
\* liveness (MC_Pool_live.cfg): under weak fairness of the pool's steps every map delivers every result - no schedule in
\* which the consumer waits for ever for the result at the head of the order while workers idle or run later tasks
LiveSpec == Init /\ [][Next]_pvars /\ WF_pvars(PoolNext)
NoFairSpec == Init /\ [][Next]_pvars          \* without fairness the property must FAIL (MC_Pool_live_x.cfg): it is not vacuous
Prop_Terminates == <>AllDone
Prop_EveryTaskDelivered == \A t \in Tasks : (\E i \in 1..Len(order) : order[i] = t) ~> (\E i \in 1..Len(yielded) : yielded[i].task = t)
N == Cardinality(Tasks)
InitFull == /\ order = [i \in 1..N |-> i]
            /\ next = 1 /\ running = [w \in Workers |-> 0] /\ iter = [w \in Workers |-> ParentCounter]
            /\ results = <<>> /\ yielded = <<>> /\ finishOrder = <<>>
\* (B) schedules for the real pool: every completion order that is possible with this many workers
ExportInv == AllDone /\ Len(order) = Cardinality(Tasks) /\ order = [i \in 1..Len(order) |-> i]
                => PrintT("X" \o ToJson(finishOrder))
=============================================================================
