CONSTANTS
  NR = 7
  NQ = 7
  LastRunNeedsTwoOps = FALSE
INIT ExportInit
NEXT ExportNext
CHECK_DEADLOCK FALSE
