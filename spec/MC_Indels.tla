------------------------------ MODULE MC_Indels ------------------------------
EXTENDS Indels, Json
\* query ids that are decimal substrings of one another (13, 3, 131, 1, 31): an id list kept as text must not confuse them
CONSTANTS MaxCalls, Chrs, Coords
Init == calls = <<>> /\ k = 1 /\ clusters = <<>> /\ pc = "gen"
Gen == /\ pc = "gen" /\ Len(calls) < MaxCalls
       /\ \E ch \in Chrs, rs \in Coords : \E re \in {x \in Coords : x >= rs} :
            LET c == [type |-> "deletion", chr |-> ch, rs |-> rs, re |-> re, qid |-> <<13, 3, 131, 1, 31>>[Len(calls) + 1], qs |-> 0,
                      qe |-> 1, len |-> AbsV(rs - re) - 1] IN
            /\ (IF calls = <<>> THEN TRUE ELSE Last(calls).chr < ch \/ (Last(calls).chr = ch /\ Last(calls).re <= re))
            /\ calls' = Append(calls, c)
       /\ UNCHANGED <<k, clusters, pc>>
GenDone == pc = "gen" /\ pc' = (IF calls = <<>> THEN "done" ELSE "first") /\ UNCHANGED <<calls, k, clusters>>
Next == Gen \/ GenDone \/ IndelNext
Inv_C20 == Done => C20_Cluster_Failed(calls, clusters) = {}
ExportInv == pc = "first" => PrintT("X" \o ToJson(calls))
ExportStop == pc \in {"gen", "first"}
=============================================================================
