CONSTANTS
  Envs = {1, 2}
  Counts = {2, 3}
  MaxRuns = 3
  TasksPerRun = 2
  Delivery = "argument"
  ClearsPool = FALSE
INIT InitG
NEXT NextG
INVARIANT Inv_Repetition
CHECK_DEADLOCK FALSE
