CONSTANTS
  RefMax = 7
  RefMaxLabels = 4
  QryMax = 3
  ResSet = {1, 2}
  BlurSet = {0, 1}
  PeakSet = {0, 2, 5}
  MarginFactors = {0, 1, 3}
  PtSet = {0, 1, 2}
INIT Init
NEXT Next
CHECK_DEADLOCK FALSE
INVARIANT Inv_ProbeNoRefinedPeak
