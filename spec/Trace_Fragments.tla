--------------------------- MODULE Trace_Fragments ---------------------------
(* (C) getUnalignedFragments of first-pass rows produced by the REAL pipeline.                                      *)
(*  {"xs": [...], "qlen": n, "row": {qs, qe, rev, firstQ, lastQ}, "obs": [{x, shift, len}], "status": "ok"|"exc:.."}  *)
EXTENDS Fragments, Json, IOUtils
Traces == ndJsonDeserialize(IOEnv.TRACE_FILE)
VARIABLES t, pc
tr == Traces[t]
Init == t \in 1..Len(Traces) /\ pc = "judge"
Verdict ==
    LET impl == FragmentsImpl(tr.xs, tr.qlen, tr.row)
        failed == IF tr.status # "ok" THEN {"getUnalignedFragments_raised_" \o tr.status}
                  ELSE FragmentClauses(tr.xs, tr.qlen, tr.obs)
        want == [j \in 1..Len(impl.frags) |-> [x |-> [i \in 1..(IF impl.frags[j].hi < impl.frags[j].lo THEN 0 ELSE impl.frags[j].hi - impl.frags[j].lo + 1) |-> tr.xs[impl.frags[j].lo + i - 1]],
                                               shift |-> impl.frags[j].shift, len |-> tr.qlen]]
        drift == IF (tr.status = "ok" /\ impl.status = "ok" /\ want = tr.obs) \/ (tr.status # "ok" /\ impl.status = "abort") THEN {}
                 ELSE {"fragments_differ_from_spec"}
    IN IF failed \cup drift = {} THEN TRUE ELSE PrintT(ToString(<<"V", t, failed, drift>>))
Report == pc = "judge" /\ Verdict /\ pc' = "reported" /\ UNCHANGED t
Terminated == pc = "reported" /\ UNCHANGED <<t, pc>>
Next == Report \/ Terminated
=============================================================================
