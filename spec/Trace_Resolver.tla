---------------------------- MODULE Trace_Resolver ----------------------------
(* (C) batch validation of AlignmentSegmentConflictResolver.resolveConflicts on segment lists built   *)
(* by the REAL Aligner.getSegments from ladders of seed peaks.                                         *)
(*  {"ins": [{"peak": p, "pos": [{k,r,q,sh,sc}, ...]}, ...], "rev": b,                                   *)
(*   "chain": [src, ...]            the real chainer's order (a logged choice, DESIGN.md 2.4)             *)
(*   "obs": [{"src","isrc","ix","score"}, ...], "status": "ok" | "exc:<type>"}                            *)
EXTENDS Resolver, Json, IOUtils

Traces == ndJsonDeserialize(IOEnv.TRACE_FILE)
VARIABLES t,
          kinds   \* history: which outcomes of a pair comparison occurred while replaying this list (coverage evidence)

SegOf(tr, k) == [pos |-> tr.ins[k].pos, ix |-> [j \in 1..Len(tr.ins[k].pos) |-> j], src |-> k, peak |-> tr.ins[k].peak]
Init == \E k \in 1..Len(Traces) :
           /\ t = k
           /\ InitWith([j \in 1..Len(Traces[k].chain) |-> SegOf(Traces[k], Traces[k].chain[j])])
           /\ kinds = {}

Verdict ==
    LET tr     == Traces[t]
        failed == IF tr.status # "ok" THEN {"resolution_raised_" \o tr.status}
                  ELSE C15_Failed(tr.ins, tr.rev, tr.obs)
        drift  == IF tr.status = "ok" /\ status = "done" /\ Obs(chain) = tr.obs THEN {}
                  ELSE IF tr.status # "ok" /\ status = "aborted" THEN {}
                  ELSE {"resolved_segments_differ_from_spec"}
    IN /\ (IF failed \cup drift = {} THEN TRUE ELSE PrintT(ToString(<<"V", t, failed, drift>>)))
       /\ (IF kinds \subseteq {"", "NoConflict", "NoConflict_LeftEmpty"} THEN TRUE ELSE PrintT(ToString(<<"K", t, kinds>>)))

Report == Done /\ Verdict /\ status' = "reported" /\ UNCHANGED <<chain, i1, i0, lastKind, t, kinds>>
Terminated == status = "reported" /\ UNCHANGED <<resvars, t, kinds>>
Next == (ResNext /\ kinds' = kinds \cup {lastKind'} /\ UNCHANGED t) \/ Report \/ Terminated
=============================================================================
