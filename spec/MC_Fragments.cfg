CONSTANTS
  N = 8
  Gaps = {30, 70}
INIT Init
NEXT Next
INVARIANT Inv_NoAbort
INVARIANT Inv_Slices
INVARIANT Inv_FragmentsOutsideAlignment
CHECK_DEADLOCK TRUE
