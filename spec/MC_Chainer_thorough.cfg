CONSTANTS
  C = 4
  Off = 1
  MaxSegs = 3
  Scores = {1, 3}
  Variants = {0}
  Mults <- MultsAll
  Scale = 55440
  ReverseNegatesQueryDistance = FALSE
INIT Init
NEXT Next
INVARIANT Inv_C14
CHECK_DEADLOCK FALSE
