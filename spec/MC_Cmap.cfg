CONSTANTS
  Ids = {3, 7}
  Coords = {15, 204, 1000}
  Ends = {1009, 5000}
  MaxLabels = 2
INIT Init
NEXT Next
INVARIANT Inv_C17
INVARIANT Inv_NoAbort
CHECK_DEADLOCK FALSE
