---------------------------- MODULE Trace_Worker ----------------------------
(* (C) the messages one task dispatched inside a real worker process, in their order of dispatch (per-process     *)
(* sequence numbers written by the recorder Extension), replayed action by action against Worker.tla:              *)
(*   {"refs": [reference ids in list order], "pcount": n, "margin": secondaryMargin,                               *)
(*    "ev": [{"e": "Primary", "ref", "rev", "n": #peaks, "peaks": [[pos, scoreRank]]} |                            *)
(*           {"e": "Refine", "ref", "rev", "pos": refined peak position, "index"} |                                *)
(*           {"e": "Row", "ref", "rev", "index", "conf": confRank, "has": BOOLEAN} |                               *)
(*           {"e": "Cands", "n": number of rows in the message}],                                                  *)
(*    "res": {"has": BOOLEAN, "conf": confRank}}   what the coordinator returned for the task (after its filter)   *)
(* Scores and confidences are replaced by their ranks among the task's values (order and equality are all that the *)
(* clauses use).  An event that no enabled action of the specification can take ends the replay with a named       *)
(* clause instead of blocking it.                                                                                  *)
EXTENDS Worker, Json, IOUtils

Traces == ndJsonDeserialize(IOEnv.TRACE_FILE)
VARIABLES t, l, failed, drift
Ev == Traces[t].ev
Cur == Ev[l]

Init == \E j \in 1..Len(Traces) : /\ t = j /\ l = 1 /\ failed = {} /\ drift = {}
                                  /\ par = [refs |-> Traces[j].refs, pcount |-> Traces[j].pcount] /\ WInit

More == l <= Len(Ev)
IsEvent(name) == More /\ Cur.e = name
Consume == l' = l + 1

\* an empty initial alignment reports strand '+' whatever strand was asked for: the strand is compared only when peaks exist
TraceCorrelate ==
    /\ IsEvent("Primary") /\ pc = "correlate" /\ ci < 2 * Len(RefSeq)
    /\ Correlate([j \in 1..Len(Cur.peaks) |-> [score |-> Cur.peaks[j][2], pos |-> Cur.peaks[j][1]]])
    /\ drift' = drift \cup (IF Cur.ref = NextRef /\ (Cur.n = 0 \/ Cur.rev = NextRev) THEN {}
                            ELSE {"primary_correlations_not_in_reference_order_plus_then_minus"})
    /\ Consume /\ UNCHANGED <<t, failed>>
TraceSelect == /\ ~IsEvent("Primary") /\ Select /\ UNCHANGED <<t, l, failed, drift>>
\* the refined seed must be the next selected peak: same score; same reference, strand and position unless another
\* peak of the same score exists (the order among equal scores is not part of C16)
TraceRefine ==
    /\ IsEvent("Refine") /\ Refine
    /\ LET p == prim[selected[ri + 1]]
           same == Cur.ref = p.ref /\ Cur.rev = p.rev /\ Cur.pos = p.pos
           alt == \E j \in 1..Len(prim) : prim[j].score = p.score /\ Cur.ref = prim[j].ref /\ Cur.rev = prim[j].rev
                                         /\ Cur.pos = prim[j].pos
       IN /\ failed' = failed \cup (IF same \/ alt THEN {} ELSE {"C16:refined_seed_is_not_the_next_highest_primary_peak"})
          /\ drift' = drift \cup (IF Cur.index = ri THEN {} ELSE {"refinement_index_out_of_sequence"})
                            \cup (IF same THEN {} ELSE {"tie_between_seeds_broken_otherwise"})
    /\ Consume /\ UNCHANGED t
TraceRefineDone == /\ ~IsEvent("Refine") /\ RefineDone /\ UNCHANGED <<t, l, failed, drift>>
TraceNoCandidates == /\ ~More /\ (NoCandidates \/ Abort_EmptySelection) /\ UNCHANGED <<t, l, failed, drift>>
TraceRow ==
    /\ IsEvent("Row") /\ Row(Cur.conf, Cur.has)
    /\ LET p == prim[selected[Len(cands) + 1]]
       IN drift' = drift \cup (IF Cur.index = Len(cands) /\ Cur.ref = p.ref /\ Cur.rev = p.rev THEN {}
                               ELSE {"candidate_row_does_not_belong_to_the_next_seed"})
    /\ Consume /\ UNCHANGED <<t, failed>>
TraceMulti ==
    /\ IsEvent("Cands") /\ Multi
    /\ drift' = drift \cup (IF Cur.n = Len(cands) THEN {} ELSE {"collective_message_does_not_list_every_row"})
    /\ Consume /\ UNCHANGED <<t, failed>>
TracePick == /\ ~More /\ PickBest /\ UNCHANGED <<t, l, failed, drift>>

Spec == TraceCorrelate \/ TraceSelect \/ TraceRefine \/ TraceRefineDone \/ TraceNoCandidates \/ TraceRow \/ TraceMulti \/ TracePick
\* the log and the specification part ways: which clause that is depends on where
Stuck ==
    /\ pc \notin {"done", "aborted", "stuck", "reported"} /\ ~ENABLED Spec
    /\ failed' = failed \cup
         (IF pc = "refine" /\ ri < Len(selected) /\ ~IsEvent("Refine")
          THEN {"C16:a_seed_among_the_peaksCount_highest_is_not_refined"}
          ELSE IF pc \in {"refine", "candidates"} /\ IsEvent("Refine")
          THEN {"C16:more_seeds_refined_than_the_peaksCount_highest"}
          ELSE {})
    /\ drift' = drift \cup {"log_leaves_the_specification_at_" \o pc \o (IF More THEN "_on_" \o Cur.e ELSE "_at_its_end")}
    /\ pc' = "stuck" /\ UNCHANGED <<par, ci, prim, selected, ri, cands, multi, best, result, t, l>>

Verdict ==
    LET res == Traces[t].res
        f2 == IF pc # "done" THEN {}
              ELSE (IF res.has /\ result = "row" /\ res.conf # cands[best].conf
                    THEN {"C05:returned_row_is_not_a_most_confident_candidate"} ELSE {})
                   \cup (IF res.has /\ result # "row"
                         THEN (IF cands # <<>> /\ \E j \in 1..Len(cands) : cands[j].conf = res.conf /\ cands[j].hasPairs
                                                                          /\ \A i \in 1..Len(cands) : cands[i].conf <= res.conf
                               THEN {} ELSE {"C05:returned_row_is_not_a_most_confident_candidate"}) ELSE {})
                   \cup (IF ~res.has /\ result = "row" /\ \A j \in 1..Len(cands) : (j # best => cands[j].conf < cands[best].conf)
                         THEN {"C05:most_confident_candidate_has_pairs_but_no_row_was_returned"} ELSE {})
                   \cup (IF Len(cands) <= PeaksCount THEN {} ELSE {"C05:more_candidates_than_peaksCount"})
        d2 == IF pc = "aborted" THEN {"spec_aborts"} ELSE {}
        kinds == {pc} \cup (IF selected = <<>> THEN {"no_seed"} ELSE {})
                 \cup (IF Len(prim) > PeaksCount THEN {"cut"} ELSE {})
                 \cup (IF \E a, b \in 1..Len(prim) : a # b /\ prim[a].score = prim[b].score THEN {"tied_scores"} ELSE {})
    IN /\ PrintT(ToString(<<"K", t, kinds>>))
       /\ (failed \cup f2 \cup drift \cup d2 = {} \/ PrintT(ToString(<<"V", t, failed \cup f2, drift \cup d2>>)))
Report == /\ pc \in {"done", "aborted", "stuck"} /\ Verdict /\ pc' = "reported"
          /\ UNCHANGED <<par, ci, prim, selected, ri, cands, multi, best, result, t, l, failed, drift>>
Terminated == pc = "reported" /\ UNCHANGED <<wvars, t, l, failed, drift>>
TraceNext == Spec \/ Stuck \/ Report \/ Terminated
=============================================================================
