---------------------------- MODULE Trace_Worker ----------------------------
(* (C) the messages one task dispatched inside a real worker process, in their order of dispatch (per-process     *)
(* sequence numbers written by the recorder Extension), replayed action by action against Worker.tla:              *)
(*   {"refs": [reference ids in list order], "pcount": n, "margin": secondaryMargin,                               *)
(*    "ev": [{"e": "Primary", "ref", "rev", "n": #peaks, "peaks": [[pos, scoreRank]]} |                            *)
(*           {"e": "Refine", "ref", "rev", "pos": refined peak position, "index"} |                                *)
(*           {"e": "Row", "ref", "rev", "index", "conf": confRank, "has": BOOLEAN} |                               *)
(*           {"e": "Cands", "n": number of rows in the message}],                                                  *)
(*    "res": {"has": BOOLEAN, "conf": confRank},   what the coordinator returned for the task (after its filter)   *)
(*    "judge": BOOLEAN,    FALSE = a second-pass task (a fragment): what the coordinator returned for it is not visible  *)
(*                         in the run's result (the rows are filtered and joined afterwards), "res" is not judged    *)
(*    "rebuilt": BOOLEAN}  TRUE = the coordinator dispatched fewer than 2 x references primary correlations; the   *)
(*                         Primary events were then computed with the real getInitialAlignment outside it          *)
(* Scores and confidences are replaced by their ranks among the task's values (order and equality are all that the *)
(* clauses use).  An event that no enabled action of the specification can take ends the replay with a named       *)
(* clause instead of blocking it.                                                                                  *)
EXTENDS Worker, Json, IOUtils

Traces == ndJsonDeserialize(IOEnv.TRACE_FILE)
VARIABLES t, l, failed, drift
Ev == Traces[t].ev
Cur == Ev[l]

Init == \E j \in 1..Len(Traces) : /\ t = j /\ l = 1 /\ failed = {} /\ drift = {}
                                  /\ par = [refs |-> Traces[j].refs, pcount |-> Traces[j].pcount] /\ WInit

More == l <= Len(Ev)
IsEvent(name) == More /\ Cur.e = name
Consume == l' = l + 1

\* an empty initial alignment reports strand '+' whatever strand was asked for: the strand is compared only when peaks exist
TraceCorrelate ==
    /\ IsEvent("Primary") /\ pc = "correlate" /\ ci < 2 * Len(RefSeq)
    /\ Correlate([j \in 1..Len(Cur.peaks) |-> [score |-> Cur.peaks[j][2], pos |-> Cur.peaks[j][1]]])
    /\ drift' = drift \cup (IF Cur.ref = NextRef /\ (Cur.n = 0 \/ Cur.rev = NextRev) THEN {}
                            ELSE {"primary_correlations_not_in_reference_order_plus_then_minus"})
    /\ Consume /\ UNCHANGED <<t, failed>>
TraceSelect == /\ ~IsEvent("Primary") /\ Select /\ UNCHANGED <<t, l, failed, drift>>
\* the refined seed must be the next selected peak: same score; same reference, strand and position unless another
\* peak of the same score exists (the order among equal scores is not part of C16)
TraceRefine ==
    /\ IsEvent("Refine") /\ Refine
    /\ LET p == prim[selected[ri + 1]]
           same == Cur.ref = p.ref /\ Cur.rev = p.rev /\ Cur.pos = p.pos
           alt == \E j \in 1..Len(prim) : prim[j].score = p.score /\ Cur.ref = prim[j].ref /\ Cur.rev = prim[j].rev
                                         /\ Cur.pos = prim[j].pos
       IN /\ failed' = failed
          /\ drift' = drift \cup (IF Cur.index = ri THEN {} ELSE {"refinement_index_out_of_sequence"})
                            \cup (IF same THEN {} ELSE IF alt THEN {"tie_between_seeds_broken_otherwise"}
                                  ELSE {"refined_seed_is_not_the_next_selected_peak"})
    /\ Consume /\ UNCHANGED t
TraceRefineDone == /\ ~IsEvent("Refine") /\ RefineDone /\ UNCHANGED <<t, l, failed, drift>>
TraceNoCandidates == /\ ~More /\ (NoCandidates \/ Abort_EmptySelection) /\ UNCHANGED <<t, l, failed, drift>>
TraceRow ==
    /\ IsEvent("Row") /\ Row(Cur.conf, Cur.has)
    /\ LET p == prim[selected[Len(cands) + 1]]
       IN drift' = drift \cup (IF Cur.index = Len(cands) /\ Cur.ref = p.ref /\ Cur.rev = p.rev THEN {}
                               ELSE {"candidate_row_does_not_belong_to_the_next_seed"})
    /\ Consume /\ UNCHANGED <<t, failed>>
TraceMulti ==
    /\ IsEvent("Cands") /\ Multi
    /\ drift' = drift \cup (IF Cur.n = Len(cands) THEN {} ELSE {"collective_message_does_not_list_every_row"})
    /\ Consume /\ UNCHANGED <<t, failed>>
TracePick == /\ ~More /\ PickBest /\ UNCHANGED <<t, l, failed, drift>>

Spec == TraceCorrelate \/ TraceSelect \/ TraceRefine \/ TraceRefineDone \/ TraceNoCandidates \/ TraceRow \/ TraceMulti \/ TracePick
\* the log and the specification part ways: which clause that is depends on where
Stuck ==
    /\ pc \notin {"done", "aborted", "stuck", "reported"} /\ ~ENABLED Spec
    /\ failed' = failed
    /\ drift' = drift \cup {"log_leaves_the_specification_at_" \o pc \o (IF More THEN "_on_" \o Cur.e ELSE "_at_its_end")}
    /\ pc' = "stuck" /\ UNCHANGED <<par, ci, prim, selected, ri, cands, multi, best, result, t, l>>

\* The property clauses are evaluated on the WHOLE log, whatever the order of the messages (the order is the
\* implementation's business and is judged by the replay, as drift): C16 - the seeds that were refined are the peaksCount
\* highest-scoring peaks of all primary correlations, in descending order; C05 - at most peaksCount candidates, the
\* returned row is a most confident one.
AllPrim == LET prs == SelectSeq(Ev, LAMBDA e : e.e = "Primary")
               RECURSIVE Flat(_)
               Flat(k) == IF k > Len(prs) THEN <<>>
                          ELSE [j \in 1..Len(prs[k].peaks) |-> [ref |-> prs[k].ref, rev |-> prs[k].rev, pos |-> prs[k].peaks[j][1],
                                                                score |-> prs[k].peaks[j][2]]] \o Flat(k + 1)
           IN Flat(1)
Refined == SelectSeq(Ev, LAMBDA e : e.e = "Refine")
RowsSeen == SelectSeq(Ev, LAMBDA e : e.e = "Row")
ScoreOf(P, r) == LET m == {j \in 1..Len(P) : P[j].ref = r.ref /\ P[j].rev = r.rev /\ P[j].pos = r.pos}
                 IN IF m = {} THEN -1 ELSE P[CHOOSE j \in m : TRUE].score
C16_Log_Failed ==
    LET P == AllPrim
        R == Refined
        top == TopN(P, PeaksCount)
    IN (IF \A i \in 1..Len(R) : ScoreOf(P, R[i]) # -1 THEN {} ELSE {"C16:refined_seed_is_no_primary_peak_of_the_query"})
       \cup (IF Len(R) = Len(top) THEN {}
             ELSE IF Len(R) < Len(top) THEN {"C16:a_seed_among_the_peaksCount_highest_is_not_refined"}
             ELSE {"C16:more_seeds_refined_than_the_peaksCount_highest"})
       \cup (IF \A i \in 1..Len(R) : i <= Len(top) => (ScoreOf(P, R[i]) = -1 \/ ScoreOf(P, R[i]) = P[top[i]].score) THEN {}
             ELSE {"C16:refined_seeds_are_not_the_highest_primary_peaks_in_descending_order"})
       \cup (IF \A i, j \in 1..Len(R) : i < j => ~(R[i].ref = R[j].ref /\ R[i].rev = R[j].rev /\ R[i].pos = R[j].pos) THEN {}
             ELSE {"C16:a_seed_is_refined_twice"})
C05_Log_Failed ==
    LET res == Traces[t].res
        W == RowsSeen
        mx == IF Len(W) = 0 THEN 0 ELSE CHOOSE c \in {W[i].conf : i \in 1..Len(W)} : \A i \in 1..Len(W) : W[i].conf <= c
    IN (IF Len(W) <= PeaksCount THEN {} ELSE {"C05:more_candidates_than_peaksCount"})
       \cup (IF Traces[t].judge /\ res.has /\ (Len(W) = 0 \/ res.conf # mx) THEN {"C05:returned_row_is_not_a_most_confident_candidate"} ELSE {})
       \cup (IF Traces[t].judge /\ ~res.has /\ Len(W) > 0 /\ \A i \in 1..Len(W) : (W[i].conf = mx => W[i].has)
             THEN {"C05:most_confident_candidate_has_pairs_but_no_row_was_returned"} ELSE {})

Verdict ==
    LET res == Traces[t].res
        f2 == C16_Log_Failed \cup C05_Log_Failed
        d2 == (IF pc = "aborted" THEN {"spec_aborts"} ELSE {})
              \cup (IF Traces[t].rebuilt THEN {"not_every_primary_correlation_was_dispatched"} ELSE {})
        kinds == {pc} \cup (IF selected = <<>> THEN {"no_seed"} ELSE {})
                 \cup (IF Len(prim) > PeaksCount THEN {"cut"} ELSE {})
                 \cup (IF \E a, b \in 1..Len(prim) : a # b /\ prim[a].score = prim[b].score THEN {"tied_scores"} ELSE {})
    IN /\ PrintT(ToString(<<"K", t, kinds>>))
       /\ (failed \cup f2 \cup drift \cup d2 = {} \/ PrintT(ToString(<<"V", t, failed \cup f2, drift \cup d2>>)))
Report == /\ pc \in {"done", "aborted", "stuck"} /\ Verdict /\ pc' = "reported"
          /\ UNCHANGED <<par, ci, prim, selected, ri, cands, multi, best, result, t, l, failed, drift>>
Terminated == pc = "reported" /\ UNCHANGED <<wvars, t, l, failed, drift>>
TraceNext == Spec \/ Stuck \/ Report \/ Terminated
=============================================================================
