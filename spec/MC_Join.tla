------------------------------- MODULE MC_Join -------------------------------
(* (A) exhaustive on small lattice rows: two single-segment alignments of one query on one reference (forward    *)
(* strand), each a diagonal run of pairs with an optional reference label left unpaired in the middle; the join   *)
(* as modelled never aborts, and whatever it returns is a valid matching made of pairs of its parts. Whether it    *)
(* equals the union when the union is valid is checked separately (Inv_Union): TLC is expected to show where it    *)
(* does not (the merge-index cut keeps a prefix of one part and a suffix of the other).                            *)
EXTENDS Join, Json
CONSTANTS NLab, Diags
VARIABLES rowA, rowB, res, pc
vars == <<rowA, rowB, res, pc>>

\* labels on a lattice of step 10: reference label i at 10 i, query label i at 10 i (fed coordinates)
PairPos(r, q, peak) == [k |-> "P", r |-> <<r, 10 * r>>, q |-> <<q, 10 * q>>, sh |-> 10 * q - (10 * r - peak), sc |-> 3]
RefOnly(r) == [k |-> "R", r |-> <<r, 10 * r>>, q |-> NullLabel, sh |-> 0, sc |-> -1]
\* a run of reference labels a..b on diagonal d (q = r - d), with the pair of label h (if a < h < b) replaced by R(h)
Run(a, b, d, h) == [j \in 1..(b - a + 1) |-> IF a + j - 1 = h THEN RefOnly(h) ELSE PairPos(a + j - 1, a + j - 1 - d, 10 * d)]
SegOf(a, b, d, h, src) == [pos |-> Run(a, b, d, h), ix |-> [j \in 1..(b - a + 1) |-> j], src |-> src, peak |-> 10 * d]
RowOf(s) == [segs |-> <<s>>]
Runs == {<<a, b, d, h>> \in (1..NLab) \X (1..NLab) \X Diags \X (0..NLab) :
            a <= b /\ a - d >= 1 /\ (h = 0 \/ (a < h /\ h < b))}
Init == \E x \in Runs, y \in Runs :
          /\ rowA = RowOf(SegOf(x[1], x[2], x[3], x[4], 1)) /\ rowB = RowOf(SegOf(y[1], y[2], y[3], y[4], 2))
          /\ res = <<>> /\ pc = "join"
          /\ chain = <<>> /\ i1 = 0 /\ i0 = 0 /\ lastKind = "" /\ status = "unused"     \* (the pass itself is not run here)
DoJoin == pc = "join" /\ res' = JoinImpl(rowA, rowB) /\ pc' = "done" /\ UNCHANGED <<rowA, rowB, resvars>>
Terminated == pc = "done" /\ UNCHANGED <<vars, resvars>>
Next == DoJoin \/ Terminated
PA == IdPairs(RowPairsOf(rowA.segs))
PB == IdPairs(RowPairsOf(rowB.segs))
PJ == IdPairs(RowPairsOf(res.segs))
ExportInv == pc = "join" => PrintT("X" \o ToJson([A |-> [segs |-> <<[peak |-> rowA.segs[1].peak, pos |-> rowA.segs[1].pos]>>],
                                                     B |-> [segs |-> <<[peak |-> rowB.segs[1].peak, pos |-> rowB.segs[1].pos]>>]]))
ExportStop == pc = "join"
Inv_NoAbort == pc = "done" => res.status = "ok"
Inv_Join == pc = "done" => Join_Failed(PA, PB, FALSE, res.joined, PJ) \subseteq {"joined_is_exactly_the_union_when_union_is_valid"}
Inv_Union == pc = "done" => Join_Failed(PA, PB, FALSE, res.joined, PJ) = {}
=============================================================================
