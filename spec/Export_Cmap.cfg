CONSTANTS
  Ids = {3, 7}
  Coords = {0, 15, 204, 1005}
  Ends = {1009, 5000}
  MaxLabels = 2
  LabelChans = {1, 2}
INIT Init
NEXT Next
INVARIANT ExportInv
CONSTRAINT ExportStop
CHECK_DEADLOCK FALSE
