CONSTANTS
  Blur = 3
  DropsOtherChromosome = FALSE
INIT Init
NEXT Next
CHECK_DEADLOCK TRUE
