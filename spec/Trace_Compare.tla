---------------------------- MODULE Trace_Compare ----------------------------
(* (C) results of the REAL AlignmentComparer.compare for (A,B), (B,A) and (A,A).                                  *)
(*  {"A": [{q,r,pairs}], "B": [...], "flag": b, "ab": cmp, "ba": cmp, "aa": cmp}                                   *)
(*  cmp = {ov, nov, fo, so, c1, c2, idn, rows: [{q, r, type, idn, c1, c2, x1, x2}]}   (measures x 10^6)            *)
EXTENDS Compare, Json, IOUtils
Traces == ndJsonDeserialize(IOEnv.TRACE_FILE)
VARIABLES t, pc
tr == Traces[t]
Init == t \in 1..Len(Traces) /\ pc = "judge"
CovMatches(obs, frac) == AbsV(obs * frac[2] - frac[1] * M) <= frac[2]
Verdict ==
    LET failed == C19_Failed(tr.A, tr.B, tr.ab, tr.ba, tr.aa)
        impl == CompareImpl(tr.A, tr.B, tr.flag)
        both == {j \in 1..Len(tr.ab.rows) : tr.ab.rows[j].type = "BOTH"}
        drift == (IF impl.fo = tr.ab.fo /\ impl.so = tr.ab.so /\ Cardinality(both) = Len(impl.rows) THEN {} ELSE {"counts_differ_from_spec"})
                 \cup (IF Cardinality(both) = Len(impl.rows) /\ \A j \in 1..Len(impl.rows) :
                              LET o == tr.ab.rows[j]  m == impl.rows[j] IN
                              /\ o.q = m.q /\ o.r = m.r
                              /\ SetOf(o.x1) = m.x1 /\ SetOf(o.x2) = m.x2
                              /\ CovMatches(o.c1, m.c1) /\ CovMatches(o.c2, m.c2)
                              /\ (m.bothEmpty \/ ((o.idn > 0) <=> m.common))
                       THEN {} ELSE {"compared_rows_differ_from_spec"})
    IN IF failed \cup drift = {} THEN TRUE ELSE PrintT(ToString(<<"V", t, failed, drift>>))
Report == pc = "judge" /\ Verdict /\ pc' = "reported" /\ UNCHANGED t
Terminated == pc = "reported" /\ UNCHANGED <<t, pc>>
Next == Report \/ Terminated
=============================================================================
