------------------------------ MODULE MC_Worker ------------------------------
(* every task on 2 references: 0..2 peaks per (reference, strand), every confidence / hasPairs of every candidate *)
EXTENDS Worker
CONSTANT McPeaksCount
Init == par = [refs |-> <<1, 2>>, pcount |-> McPeaksCount] /\ WInit
Terminated == pc \in {"done", "aborted"} /\ UNCHANGED wvars
Next == WorkerNext \/ Terminated
=============================================================================
