------------------------------ MODULE MC_Worker ------------------------------
EXTENDS Worker
CONSTANT MaxPeaks
\* primary peaks: for every (reference, strand) the environment supplies 0..2 peaks (none when the query is longer
\* than the reference or the reference has a single label)
Init == /\ prim = <<>> /\ selected = <<>> /\ cands = <<>> /\ best = 0 /\ result = "-" /\ pc = "primary"
AddPeak == /\ pc = "primary" /\ Len(prim) < MaxPeaks
           /\ \E r \in Refs, rv \in BOOLEAN, s \in Scores : prim' = Append(prim, [ref |-> r, rev |-> rv, score |-> s])
           /\ UNCHANGED <<selected, cands, best, result, pc>>
PrimaryDone == pc = "primary" /\ pc' = "select" /\ UNCHANGED <<prim, selected, cands, best, result>>
Terminated == pc \in {"done", "aborted"} /\ UNCHANGED wvars
Next == AddPeak \/ PrimaryDone \/ WorkerNext \/ Terminated
=============================================================================
