CONSTANTS
  NQ = 2
  Confs = {1, 2, 3}
  FirstConfs = {1, 2}
  Spans <- SpansSmall
  MaxDiff = 1
  MaxSecond = 3
INIT Init
NEXT Next
INVARIANT Inv_C05
INVARIANT Inv_C08
CHECK_DEADLOCK FALSE
