-------------------------------- MODULE Indels --------------------------------
(***************************************************************************)
(* sv/write_indel_files.py cluster_indels: clustering of a sorted list of   *)
(* indel calls of one type, one action per loop iteration; property C20.    *)
(* A call is [type, chr, rs, re, qid, qs, qe, len] (integers; type is       *)
(* "insertion" | "deletion"); a cluster is [type, chr, rs, re, ids : Seq,   *)
(* count].  The averaged Length of a cluster is not modelled.               *)
(***************************************************************************)
EXTENDS Integers, Sequences, FiniteSets, TLC

CONSTANTS Blur,
          DropsOtherChromosome   \* TRUE = pinned commit (deviation D9): a call within Blur of the previous cluster's
                                 \* RefStop but on another chromosome matches no branch and is silently dropped
AbsV(x) == IF x < 0 THEN -x ELSE x
MinV(a, b) == IF a < b THEN a ELSE b
MaxV(a, b) == IF a > b THEN a ELSE b
Last(s) == s[Len(s)]

VARIABLES calls, k, clusters, pc
ivars == <<calls, k, clusters, pc>>
ClusterOf(c) == [type |-> c.type, chr |-> c.chr, rs |-> c.rs, re |-> c.re, ids |-> <<c.qid>>, count |-> 1]
InitWith(cs) == calls = cs /\ k = 1 /\ clusters = <<>> /\ pc = IF cs = <<>> THEN "done" ELSE "first"

First == pc = "first" /\ clusters' = <<ClusterOf(calls[1])>> /\ k' = 2 /\ pc' = "loop" /\ UNCHANGED calls
Near == AbsV(calls[k].re - Last(clusters).re) <= Blur
SameKind == calls[k].type = Last(clusters).type /\ calls[k].chr = Last(clusters).chr
MergeStop ==
    /\ pc = "loop" /\ k <= Len(calls) /\ Near /\ SameKind
    /\ clusters' = [clusters EXCEPT ![Len(clusters)] =
                       [@ EXCEPT !.count = @ + 1, !.rs = MinV(@, calls[k].rs), !.re = MaxV(@, calls[k].re),
                                 !.ids = Append(@, calls[k].qid)]]
    /\ k' = k + 1 /\ UNCHANGED <<calls, pc>>
DropSilently ==
    /\ pc = "loop" /\ k <= Len(calls) /\ Near /\ ~SameKind /\ DropsOtherChromosome
    /\ k' = k + 1 /\ UNCHANGED <<calls, clusters, pc>>
NewClusterOtherKind ==
    /\ pc = "loop" /\ k <= Len(calls) /\ Near /\ ~SameKind /\ ~DropsOtherChromosome
    /\ clusters' = Append(clusters, ClusterOf(calls[k])) /\ k' = k + 1 /\ UNCHANGED <<calls, pc>>
NewCluster ==
    /\ pc = "loop" /\ k <= Len(calls) /\ ~Near
    /\ clusters' = Append(clusters, ClusterOf(calls[k])) /\ k' = k + 1 /\ UNCHANGED <<calls, pc>>
Finish == pc = "loop" /\ k > Len(calls) /\ pc' = "done" /\ UNCHANGED <<calls, k, clusters>>
IndelNext == First \/ MergeStop \/ DropSilently \/ NewClusterOtherKind \/ NewCluster \/ Finish
Done == pc = "done"

-----------------------------------------------------------------------------
SortedAsWriterSorts(cs) == (\A j \in 1..Len(cs) : cs[j].rs <= cs[j].re) /\ \A j \in 1..(Len(cs)-1) :
                              cs[j].chr < cs[j+1].chr \/ (cs[j].chr = cs[j+1].chr /\ cs[j].re <= cs[j+1].re)
SumCounts(cl) == LET f[j \in 0..Len(cl)] == IF j = 0 THEN 0 ELSE f[j-1] + cl[j].count IN f[Len(cl)]
C20_Cluster_Failed(cs, cl) ==
    (IF SumCounts(cl) = Len(cs) THEN {} ELSE {"counts_sum_to_number_of_calls"})
    \cup (IF \A j \in 1..Len(cs) :
                Cardinality({<<c, i>> \in (1..Len(cl)) \X (1..Len(cs)) : i <= Len(cl[c].ids) /\ cl[c].ids[i] = cs[j].qid})
                   = Cardinality({i \in 1..Len(cs) : cs[i].qid = cs[j].qid})
          THEN {} ELSE {"every_query_id_in_exactly_one_cluster"})
    \cup (IF \A c \in 1..Len(cl) : Len(cl[c].ids) = cl[c].count THEN {} ELSE {"count_is_number_of_member_ids"})
    \cup (IF \A c \in 1..Len(cl) : \A i \in 1..Len(cl[c].ids) :
                \E j \in 1..Len(cs) : /\ cs[j].qid = cl[c].ids[i] /\ cs[j].type = cl[c].type /\ cs[j].chr = cl[c].chr
                                      /\ cl[c].rs <= cs[j].rs /\ cs[j].re <= cl[c].re
          THEN {} ELSE {"cluster_same_type_and_chromosome_and_covers_members"})
\* a single (un-merged) call
C20_Call_Failed(c) ==
    (IF c.len = AbsV(c.rs - c.re) - AbsV(c.qs - c.qe) THEN {} ELSE {"length_is_reference_gap_minus_query_gap"})
    \cup (IF (c.type = "insertion") <=> (c.len < 0) THEN {} ELSE {"insertion_iff_length_negative"})
    \cup (IF c.type \in {"insertion", "deletion"} THEN {} ELSE {"type_is_insertion_or_deletion"})
\* one invocation of a finder: what it returns comes from the alignment and the break points it was fed, nothing else
\* (fed = [qid, chr, nbreak])
C20_Finder_Failed(cs, fed) ==
    UNION {C20_Call_Failed(cs[i]) : i \in 1..Len(cs)}
    \cup (IF \A i \in 1..Len(cs) : cs[i].qid = fed.qid /\ cs[i].chr = fed.chr THEN {}
          ELSE {"calls_come_from_the_alignment_that_was_fed"})
    \cup (IF Len(cs) <= fed.nbreak THEN {} ELSE {"at_most_one_call_per_break_point"})

\* end to end (sv/molecule_indels.py on COMA's own output files): the coordinates of an un-merged call are those of two
\* CONSECUTIVE aligned pairs of the joined record of that query ("the two flanking aligned labels")
C20_Flank_Failed(c, pairs, refx, qryx) ==
    IF \E i \in 1..(Len(pairs) - 1) :
          /\ pairs[i][1] \in 1..Len(refx) /\ pairs[i+1][1] \in 1..Len(refx)
          /\ pairs[i][2] \in 1..Len(qryx) /\ pairs[i+1][2] \in 1..Len(qryx)
          /\ refx[pairs[i][1]] = c.rs /\ refx[pairs[i+1][1]] = c.re
          /\ qryx[pairs[i][2]] = c.qs /\ qryx[pairs[i+1][2]] = c.qe
    THEN {} ELSE {"coordinates_are_those_of_two_flanking_aligned_labels"}
=============================================================================
