-------------------------------- MODULE Pool --------------------------------
(***************************************************************************)
(* The ordered parallel map in the middle of COMA                          *)
(*   p_imap(align, tasks, num_cpus = N)                                    *)
(* (src/workflow_coordinator.py) together with the one piece of state the  *)
(* tasks share: AlignerEngine.iteration, the per-process counter that is   *)
(* copied into every AlignedPair as `source` (src/alignment/aligner.py).   *)
(*                                                                         *)
(* A task is a query (or second-pass fragment); its result is a function   *)
(* of the task alone EXCEPT for the source tags, which are the values of   *)
(* the counter of the process that ran it.  How the counter travels is a   *)
(* property of the pool, not of COMA, hence a constant:                    *)
(*   Ship = "per_task"   : the callable is re-pickled for every task, the  *)
(*                         counter restarts from the parent's value        *)
(*                         (what pathos/dill does; measured)               *)
(*   Ship = "per_worker" : the counter lives as long as the worker process *)
(* Properties: C09 (what is yielded, without the source tags, does not     *)
(* depend on the schedule or on the number of workers) and C10 (a task's   *)
(* record does not depend on which other tasks are present or on their     *)
(* order).                                                                 *)
(***************************************************************************)
EXTENDS Integers, Sequences, FiniteSets, TLC

CONSTANTS Tasks,       \* set of task ids (Nat)
          Workers,     \* set of worker ids
          Calls,       \* [Tasks -> Nat] : number of engine calls (seed peaks) of each task
          Ship

VARIABLES order,       \* Seq(task): the tasks present, in input order (chosen initially: any subset, any order)
          next,        \* index into order of the next task to hand out
          running,     \* [Workers -> task | 0]
          iter,        \* [Workers -> Nat] the per-process counter
          results,     \* [task -> result] for finished tasks ; result = [task, payload, sources]
          yielded,     \* Seq(result) handed to the consumer so far (ordered map: task order)
          finishOrder  \* history: tasks in the order they finished
pvars == <<order, next, running, iter, results, yielded, finishOrder>>

ParentCounter == 1
Payload(t) == t * 100                 \* stands for everything __align computes from the task alone
Sources(from, n) == [i \in 1..n |-> from + i - 1]
Proj(r) == [task |-> r.task, payload |-> r.payload]       \* what reaches the XMAP files

SeqPerms(S) == IF S = {} THEN {<<>>}
               ELSE LET RECURSIVE P(_)
                        P(T) == IF T = {} THEN {<<>>} ELSE UNION {{<<x>> \o p : p \in P(T \ {x})} : x \in T}
                    IN P(S)

Init == /\ order \in UNION {SeqPerms(S) : S \in SUBSET Tasks}
        /\ next = 1 /\ running = [w \in Workers |-> 0] /\ iter = [w \in Workers |-> ParentCounter]
        /\ results = <<>> /\ yielded = <<>> /\ finishOrder = <<>>

\* an idle worker takes the next task in input order
Take(w) ==
    /\ running[w] = 0 /\ next <= Len(order)
    /\ running' = [running EXCEPT ![w] = order[next]] /\ next' = next + 1
    /\ iter' = IF Ship = "per_task" THEN [iter EXCEPT ![w] = ParentCounter] ELSE iter
    /\ UNCHANGED <<order, results, yielded, finishOrder>>

\* the task runs to completion in its worker: Calls[t] engine calls, each stamps and increments the counter
Finish(w) ==
    /\ running[w] # 0
    /\ LET t == running[w] IN
       /\ results' = [x \in (DOMAIN results) \cup {t} |->
                        IF x = t THEN [task |-> t, payload |-> Payload(t), sources |-> Sources(iter[w], Calls[t])]
                        ELSE results[x]]
       /\ iter' = [iter EXCEPT ![w] = @ + Calls[t]]
       /\ finishOrder' = Append(finishOrder, t)
    /\ running' = [running EXCEPT ![w] = 0]
    /\ UNCHANGED <<order, next, yielded>>

\* the consumer receives results strictly in input order
Yield ==
    /\ Len(yielded) < Len(order)
    /\ order[Len(yielded) + 1] \in DOMAIN results
    /\ yielded' = Append(yielded, results[order[Len(yielded) + 1]])
    /\ UNCHANGED <<order, next, running, iter, results, finishOrder>>

PoolNext == (\E w \in Workers : Take(w) \/ Finish(w)) \/ Yield
AllDone == Len(yielded) = Len(order)

-----------------------------------------------------------------------------
IsPrefix(a, b) == Len(a) <= Len(b) /\ \A i \in 1..Len(a) : a[i] = b[i]
\* C09: at any time what has been yielded is a prefix of the sequential result (source tags dropped)
Sequential == [i \in 1..Len(order) |-> [task |-> order[i], payload |-> Payload(order[i])]]
Inv_C09 == IsPrefix([i \in 1..Len(yielded) |-> Proj(yielded[i])], Sequential)
Prop_C09_Monotone == [][IsPrefix(yielded, yielded')]_pvars
\* C10: the record of a task is the same whatever other tasks are present and in whatever order
Inv_C10 == \A i \in 1..Len(yielded) : Proj(yielded[i]) = [task |-> yielded[i].task, payload |-> Payload(yielded[i].task)]
\* each task runs exactly once
Inv_Once == /\ \A i, j \in 1..Len(finishOrder) : i # j => finishOrder[i] # finishOrder[j]
            /\ \A t \in DOMAIN results : \E i \in 1..Len(finishOrder) : finishOrder[i] = t
\* named deviation: under "per_worker" the source tags DO depend on the schedule; this is what would make the
\* output schedule dependent if source ever reached the files.  Expected to be violated when Ship = "per_worker".
Inv_SourceIndependent == \A t \in DOMAIN results : results[t].sources = Sources(ParentCounter, Calls[t])
=============================================================================
