---------------------------- MODULE MC_Vectorise ----------------------------
(* (A) exhaustive on small cases: vectorisePositions (state machine), blur, bin->bp, selectPeaks vs C16.  *)
EXTENDS Vectorise, Json, IOUtils

StartsV == -3..5
BinStartsV == {-7, -1, 0, 3}
BinXsV == -7..30
CONSTANTS PosMax, PosMaxLen, ResSet, StartSet, EndSet, BlurLen, BlurRadii, BinRes, BinStarts, BinXs,
          SelLen, SelScores, SelCounts

VARIABLE kind
Bits(n) == UNION {[1..m -> {0, 1}] : m \in 0..n}
Init ==
    \/ /\ kind = "vec" /\ \E r \in ResSet, s \in StartSet, e \in EndSet :
                             vin = [pos |-> <<>>, res |-> r, start |-> s, end |-> e]
       /\ ws = 0 /\ k = 1 /\ out = <<>> /\ pc = "gen"
    \/ /\ kind = "blur" /\ \E v \in Bits(BlurLen), r \in BlurRadii : vin = [v |-> v, r |-> r]
       /\ ws = 0 /\ k = 1 /\ out = <<>> /\ pc = "blur"
    \/ /\ kind = "bin" /\ \E x \in BinXs, r \in BinRes, s \in BinStarts : vin = [x |-> x, res |-> r, start |-> s]
       /\ ws = 0 /\ k = 1 /\ out = <<>> /\ pc = "bin"
    \/ /\ kind = "sel" /\ \E m \in 0..SelLen : \E sc \in [1..m -> SelScores] : \E c \in SelCounts :
                             vin = [scores |-> sc, count |-> c]
       /\ ws = 0 /\ k = 1 /\ out = <<>> /\ pc = "sel"
GenPos == /\ pc = "gen" /\ Len(vin.pos) < PosMaxLen
          /\ \E x \in (IF vin.pos = <<>> THEN 0 ELSE Last(vin.pos))..PosMax : vin' = [vin EXCEPT !.pos = Append(@, x)]
          /\ UNCHANGED <<ws, k, out, pc, kind>>
GenDone == /\ pc = "gen" /\ Len(vin.pos) >= 1 /\ ws' = vin.start /\ pc' = "loop" /\ UNCHANGED <<vin, k, out, kind>>
BlurStep == pc = "blur" /\ out' = BlurImpl(vin.v, vin.r) /\ pc' = "done" /\ UNCHANGED <<vin, ws, k, kind>>
BinStep == pc = "bin" /\ out' = ToRel(FloorDiv(vin.x - vin.start, vin.res), vin.res, vin.start) /\ pc' = "done"
           /\ UNCHANGED <<vin, ws, k, kind>>
SelStep == pc = "sel" /\ out' = SelectImpl(vin.scores, vin.count) /\ pc' = "done" /\ UNCHANGED <<vin, ws, k, kind>>
Next == GenPos \/ GenDone \/ (VecNext /\ UNCHANGED kind) \/ BlurStep \/ BinStep \/ SelStep

Inv_C16 == Done =>
    CASE kind = "vec"  -> C16_Vec_Failed(vin, out) = {}
      [] kind = "blur" -> C16_Blur_Failed(vin.v, vin.r, out) = {}
      [] kind = "bin"  -> C16_Bin_Failed(vin.x, vin.res, vin.start, out) = {}
      [] kind = "sel"  -> C16_Sel_Failed(vin.scores, vin.count, out) = {}

Inv_BlurFast == (pc = "blur") => BlurFast(vin.v, vin.r) = BlurImpl(vin.v, vin.r)
Inv_VecFun == (Done /\ kind = "vec") => out = VecFun(vin)

ExportInv == (pc \in {"blur", "bin", "sel"} \/ (pc = "loop" /\ k = 1 /\ out = <<>> /\ ws = vin.start))
                => PrintT("X" \o ToJson([kind |-> kind, vin |-> vin]))
ExportStop == pc \in {"gen", "blur", "bin", "sel"} \/ (pc = "loop" /\ k = 1 /\ out = <<>> /\ ws = vin.start)
=============================================================================
