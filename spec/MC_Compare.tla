----------------------------- MODULE MC_Compare -----------------------------
(* (A) every pair of small alignment sets: the comparer as modelled (identity abstracted to "positive iff a pair  *)
(* is shared") satisfies the counting clauses of C19; also used to print the input space.                          *)
EXTENDS Compare, Json
KeysSmall == {<<1, 1>>, <<1, 2>>, <<2, 1>>}
PairListsSmall == {<<>>, <<<<1, 1>>>>, <<<<1, 1>>, <<2, 2>>>>, <<<<1, 1>>, <<2, 1>>>>, <<<<2, 1>>, <<3, 2>>>>, <<<<1, 1>>, <<2, 1>>, <<3, 3>>>>}
CONSTANTS KeySet, PairLists, MaxA, MaxB
VARIABLES A, B, flag, pc
Init == A = <<>> /\ B = <<>> /\ flag \in BOOLEAN /\ pc = "genA"
GenA == /\ pc = "genA" /\ Len(A) < MaxA /\ \E k \in KeySet, p \in PairLists : A' = Append(A, [q |-> k[1], r |-> k[2], pairs |-> p])
        /\ UNCHANGED <<B, flag, pc>>
GenADone == pc = "genA" /\ pc' = "genB" /\ UNCHANGED <<A, B, flag>>
GenB == /\ pc = "genB" /\ Len(B) < MaxB /\ \E k \in KeySet, p \in PairLists : B' = Append(B, [q |-> k[1], r |-> k[2], pairs |-> p])
        /\ UNCHANGED <<A, flag, pc>>
GenBDone == pc = "genB" /\ pc' = "done" /\ UNCHANGED <<A, B, flag>>
Next == GenA \/ GenADone \/ GenB \/ GenBDone

ObsOf(c) == LET ov == Cardinality({j \in 1..Len(c.rows) : c.rows[j].common})
            IN [ov |-> ov, nov |-> Len(c.rows) - ov, fo |-> c.fo, so |-> c.so]
Inv_Partition == pc = "done" =>
    LET ab == ObsOf(CompareImpl(A, B, flag))  ba == ObsOf(CompareImpl(B, A, flag))  aa == CompareImpl(A, A, flag) IN
    /\ ab.ov + ab.nov + ab.fo + ab.so = Cardinality(Keys(A) \cup Keys(B))
    /\ ab.fo = Cardinality(Keys(A) \ Keys(B)) /\ ab.so = Cardinality(Keys(B) \ Keys(A))
    /\ ba.ov = ab.ov /\ ba.nov = ab.nov /\ ba.fo = ab.so /\ ba.so = ab.fo
    /\ aa.fo = 0 /\ aa.so = 0
    /\ \A j \in 1..Len(aa.rows) : aa.rows[j].x1 = {} /\ aa.rows[j].x2 = {} /\ aa.rows[j].c1[1] = aa.rows[j].c1[2]
    /\ \A j \in 1..Len(CompareImpl(A, B, flag).rows) :
          LET rw == CompareImpl(A, B, flag).rows[j] IN rw.c1[1] >= 0 /\ rw.c1[1] <= rw.c1[2] /\ rw.c2[1] >= 0 /\ rw.c2[1] <= rw.c2[2]
ExportInv == pc = "done" => PrintT("X" \o ToJson([A |-> A, B |-> B, flag |-> flag]))
=============================================================================
