CONSTANTS
  MaxLen = 7
  Alphabet <- AlphaB
  MsSet = {1, 2, 3}
  BsSet = {0, 1, 2, 3, 5}
INIT Init
NEXT Next
INVARIANT Inv_C13
INVARIANT Inv_Type
CHECK_DEADLOCK FALSE
