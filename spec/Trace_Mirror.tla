----------------------------- MODULE Trace_Mirror -----------------------------
(* (C) C11 on first-pass records written by the REAL pipeline ('separate' mode main file) for a query and for its  *)
(* mirror image (given as another molecule of the same query file).                                                *)
(*  {"n": number of labels, "a": [record of the query] or [], "b": [record of the mirror image] or []}              *)
EXTENDS Integers, Sequences, FiniteSets, TLC, Json, IOUtils

Traces == ndJsonDeserialize(IOEnv.TRACE_FILE)
VARIABLES t, pc
tr == Traces[t]
Init == t \in 1..Len(Traces) /\ pc = "judge"

C11_Failed(n, A, B) ==
    IF A = <<>> /\ B = <<>> THEN {}
    ELSE IF A = <<>> \/ B = <<>> THEN {"mirror_image_is_aligned_iff_the_query_is"}
    ELSE LET a == A[1]  b == B[1] IN
         (IF a.r = b.r THEN {} ELSE {"same_reference"})
         \cup (IF {a.ori, b.ori} = {"+", "-"} THEN {} ELSE {"opposite_orientation"})
         \cup (IF Len(a.pairs) = Len(b.pairs) /\ \A j \in 1..Len(a.pairs) : a.pairs[j][1] = b.pairs[j][1]
               THEN {} ELSE {"same_reference_labels"})
         \cup (IF Len(a.pairs) = Len(b.pairs) /\ \A j \in 1..Len(a.pairs) : b.pairs[j][2] = n + 1 - a.pairs[j][2]
               THEN {} ELSE {"query_labels_renumbered_N_plus_1_minus_k"})
         \cup (IF a.conf = b.conf THEN {} ELSE {"same_confidence"})
Verdict == LET failed == C11_Failed(tr.n, tr.a, tr.b) IN
           IF failed = {} THEN TRUE ELSE PrintT(ToString(<<"V", t, failed, {}>>))
Report == pc = "judge" /\ Verdict /\ pc' = "reported" /\ UNCHANGED t
Terminated == pc = "reported" /\ UNCHANGED <<t, pc>>
Next == Report \/ Terminated
=============================================================================
