---------------------------- MODULE Trace_Finder ----------------------------
(* (C) sv/molecule_indels.run on COMA's own output files, per joined query:                                         *)
(*   {"fin": {J, O, R, refx, qryx, lo, hi, qid, chr}, "obs": [] | [call]}                                          *)
(* J / O / R = the pairs of the query's record in the joined / first-pass / second-pass file (parsed independently), *)
(* obs = the un-merged row the tool wrote for the query, if any.  Finder's actions are replayed; the call the        *)
(* specification arrives at is compared with the written one (drift), the written one is held to C20.               *)
EXTENDS Finder, Json, IOUtils
Traces == ndJsonDeserialize(IOEnv.TRACE_FILE)
VARIABLE t
Init == \E j \in 1..Len(Traces) : t = j /\ FInitWith(Traces[j].fin)
Verdict ==
    LET obs == Traces[t].obs
        failed == IF obs = <<>> THEN {}
                  ELSE I!C20_Call_Failed(obs[1]) \cup I!C20_Flank_Failed(obs[1], fin.J, fin.refx, fin.qryx)
        drift == IF fpc = "aborted" THEN {"spec_aborts_but_the_tool_wrote_its_file"}
                 ELSE IF obs = call THEN {} ELSE {"call_differs_from_spec"}
        kinds == {fpc} \cup (IF call # <<>> THEN {"call"} ELSE {}) \cup (IF fpc # "aborted" /\ junction = Len(part) THEN {"no_difference"} ELSE {})
    IN /\ PrintT(ToString(<<"K", t, kinds>>))
       /\ (failed \cup drift = {} \/ PrintT(ToString(<<"V", t, failed, drift>>)))
Report == fpc \in {"done", "aborted"} /\ Verdict /\ fpc' = "reported" /\ UNCHANGED <<fin, part, idx, junction, call, t>>
Terminated == fpc = "reported" /\ UNCHANGED <<fvars, t>>
Next == (FinderNext /\ UNCHANGED t) \/ Report \/ Terminated
=============================================================================
