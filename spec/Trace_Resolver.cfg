CONSTANTS
  ComparePolicy = "consecutive"
  TrimGuard = FALSE
INIT Init
NEXT Next
CHECK_DEADLOCK TRUE
