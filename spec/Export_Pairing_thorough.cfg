CONSTANTS
  RefMaxLen = 3
  RefMax = 5
  QryMaxLen = 3
  QryMax = 3
  StartSet <- StartsQuick
  MaxDSet = {0, 1, 2}
  ShiftSet = {0, 1}
INIT Init
NEXT Next
INVARIANT ExportInv
CONSTRAINT ExportStop
CHECK_DEADLOCK FALSE
