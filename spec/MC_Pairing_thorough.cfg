CONSTANTS
  RefMaxLen = 4
  RefMax = 6
  QryMaxLen = 3
  QryMax = 4
  StartSet <- StartsThorough
  MaxDSet = {0, 1, 2}
  ShiftSet = {0, 1}
INIT Init
NEXT Next
INVARIANT Inv_C12
CHECK_DEADLOCK FALSE
