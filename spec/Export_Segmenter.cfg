CONSTANTS
  MaxLen = 4
  Alphabet <- AlphaA
  MsSet = {1, 2, 3}
  BsSet = {0, 1, 2, 3, 5}
INIT ExportInit
NEXT ExportNext
CHECK_DEADLOCK FALSE
