----------------------------- MODULE AlignCore -----------------------------
(***************************************************************************)
(* Aligner.align (src/alignment/aligner.py) = for every seed peak          *)
(*   Pairing -> scoring -> Segmenter, then (if >= 2 segments)              *)
(*   Chainer -> Resolver, then AlignmentResultRow.create,                  *)
(* composed from the component modules (one hand-over action per stage),   *)
(* and the alignment-level properties C01, C04 (and C15, C07 inside).      *)
(*                                                                         *)
(* ain = [ref, qry, qlen, shift, rev, peaks : Seq(Int),                    *)
(*        par : [sp, dpnum, dpden, su, maxD, ms, bs, mnum, mden, variant,  *)
(*               scale]]                                                   *)
(* every score is kept multiplied by par.dpden (position scores) and, in   *)
(* the chainer, additionally by par.scale.                                 *)
(***************************************************************************)
EXTENDS Geometry, TLC

CONSTANTS ReverseNegatesQueryDistance, ComparePolicy, TrimGuard

VARIABLES ain, phase, k, scored, segsAll, final, row,
          p_inp, p_win, p_qls, p_cand, p_keptQ, p_keptR, p_unp, p_out, p_pc,
          s_inp, s_i, s_start, s_ext, s_cur, s_res, s_pc,
          c_segs, c_par, c_order, c_i, c_j, c_cum, c_prev, c_best, c_result, c_pc,
          r_chain, r_i1, r_i0, r_lastKind, r_status

P == INSTANCE Pairing WITH inp <- p_inp, win <- p_win, qls <- p_qls, cand <- p_cand, keptQ <- p_keptQ,
                           keptR <- p_keptR, unp <- p_unp, out <- p_out, pc <- p_pc
S == INSTANCE Segmenter WITH inp <- s_inp, i <- s_i, start <- s_start, ext <- s_ext, cur <- s_cur, res <- s_res,
                             pc <- s_pc
Ch == INSTANCE Chainer WITH segs <- c_segs, par <- c_par, order <- c_order, i <- c_i, j <- c_j, cum <- c_cum,
                            prev <- c_prev, best <- c_best, result <- c_result, pc <- c_pc
R == INSTANCE Resolver WITH chain <- r_chain, i1 <- r_i1, i0 <- r_i0, lastKind <- r_lastKind, status <- r_status

pvars == <<p_inp, p_win, p_qls, p_cand, p_keptQ, p_keptR, p_unp, p_out, p_pc>>
svars == <<s_inp, s_i, s_start, s_ext, s_cur, s_res, s_pc>>
chvars == <<c_segs, c_par, c_order, c_i, c_j, c_cum, c_prev, c_best, c_result, c_pc>>
rvars == <<r_chain, r_i1, r_i0, r_lastKind, r_status>>
avars == <<ain, phase, k, scored, segsAll, final, row>>
allvars == <<avars, pvars, svars, chvars, rvars>>

-----------------------------------------------------------------------------
PairingInput(in, peak) == [ref |-> in.ref, qry |-> in.qry, qlen |-> in.qlen, shift |-> in.shift,
                           start |-> peak, end |-> peak + in.qlen, maxD |-> in.par.maxD, rev |-> in.rev]

\* AlignmentPositionScorer (scores multiplied by dpden)
ScoreOf(par, p) == IF p.k = "P" THEN par.dpden * par.sp - par.dpnum * AbsV(p.sh) ELSE par.dpden * par.su
Scored(par, ps) == [j \in 1..Len(ps) |-> [k |-> ps[j].k, r |-> ps[j].r, q |-> ps[j].q, sh |-> ps[j].sh,
                                          sc |-> ScoreOf(par, ps[j])]]

IdleP == /\ p_inp = <<>> /\ p_win = <<>> /\ p_qls = <<>> /\ p_cand = <<>> /\ p_keptQ = <<>> /\ p_keptR = <<>>
         /\ p_unp = <<>> /\ p_out = <<>> /\ p_pc = "idle"
IdleS == /\ s_inp = <<>> /\ s_i = 0 /\ s_start = 0 /\ s_ext = 0 /\ s_cur = S!EmptySeg /\ s_res = <<>> /\ s_pc = "idle"
IdleC == /\ c_segs = <<>> /\ c_par = <<>> /\ c_order = <<>> /\ c_i = 0 /\ c_j = 0 /\ c_cum = <<>> /\ c_prev = <<>>
         /\ c_best = 1 /\ c_result = <<>> /\ c_pc = "idle"
IdleR == /\ r_chain = <<>> /\ r_i1 = 0 /\ r_i0 = 0 /\ r_lastKind = "" /\ r_status = "idle"

InitWith(in) ==
    /\ ain = in /\ k = 1 /\ scored = <<>> /\ segsAll = <<>> /\ final = <<>> /\ row = <<>>
    /\ phase = IF in.peaks = <<>> THEN "row" ELSE "startPeak"
    /\ IdleP /\ IdleS /\ IdleC /\ IdleR

\* ---- per peak: pairing
StartPeak ==
    /\ phase = "startPeak"
    /\ P!StartWith(PairingInput(ain, ain.peaks[k]))
    /\ phase' = "pair"
    /\ UNCHANGED <<ain, k, scored, segsAll, final, row, svars, chvars, rvars>>
PairStep ==
    /\ phase = "pair" /\ ~P!Done /\ P!PairNext
    /\ UNCHANGED <<avars, svars, chvars, rvars>>
\* hand-over: score the positions and start the segment builder
ToSegmenter ==
    /\ phase = "pair" /\ P!Done
    /\ scored' = Scored(ain.par, p_out)
    /\ S!StartWith([sc |-> [j \in 1..Len(p_out) |-> ScoreOf(ain.par, p_out[j])],
                   kd |-> [j \in 1..Len(p_out) |-> p_out[j].k],
                   ms |-> ain.par.dpden * ain.par.ms, bs |-> ain.par.dpden * ain.par.bs])
    /\ phase' = "segment"
    /\ UNCHANGED <<ain, k, segsAll, final, row, pvars, chvars, rvars>>
SegStep ==
    /\ phase = "segment" /\ ~S!Done /\ S!SegNext
    /\ UNCHANGED <<avars, pvars, chvars, rvars>>
\* hand-over: turn index ranges into segments that carry their positions; next peak or chaining
SegOfRange(sg, src) ==
    [pos |-> [j \in 1..Len(sg.idx) |-> scored[sg.idx[j]]],
     ix  |-> [j \in 1..Len(sg.idx) |-> j],
     src |-> src, peak |-> ain.peaks[k],
     off |-> IF sg.idx = <<>> THEN 0 ELSE sg.idx[1] - 1,
     pk  |-> k]
CollectPeak ==
    /\ phase = "segment" /\ S!Done
    /\ LET new == [j \in 1..Len(S!Result) |-> SegOfRange(S!Result[j], Len(segsAll) + j)]
       IN segsAll' = segsAll \o new
    /\ IF k < Len(ain.peaks) THEN k' = k + 1 /\ phase' = "startPeak"
       ELSE k' = k /\ phase' = "collected"
    /\ UNCHANGED <<ain, scored, final, row, pvars, svars, chvars, rvars>>

\* ---- resolveConflicts: fewer than two segments are returned untouched
ChSeg(sg) == IF sg.pos = <<>>
             THEN [rs |-> 0, re |-> 0, qs |-> 0, qe |-> 0, rv |-> FALSE, score |-> 0, empty |-> TRUE]
             ELSE LET f == R!FirstP(sg)  l == R!LastP(sg) IN
                  [rs |-> X(f.r), re |-> X(l.r), qs |-> X(f.q), qe |-> X(l.q), rv |-> Id(f.q) > Id(l.q),
                   score |-> R!Score(sg) * (ain.par.scale \div ain.par.dpden), empty |-> FALSE]
Untouched ==
    /\ phase = "collected" /\ Len(segsAll) < 2
    /\ final' = segsAll /\ phase' = "row"
    /\ UNCHANGED <<ain, k, scored, segsAll, row, pvars, svars, chvars, rvars>>
ToChainer ==
    /\ phase = "collected" /\ Len(segsAll) >= 2
    /\ Ch!StartWith([j \in 1..Len(segsAll) |-> ChSeg(segsAll[j])],
                   [mnum |-> ain.par.mnum, mden |-> ain.par.mden, variant |-> ain.par.variant,
                    scale |-> ain.par.scale])
    /\ phase' = "chain"
    /\ UNCHANGED <<ain, k, scored, segsAll, final, row, pvars, svars, rvars>>
ChainStep ==
    /\ phase = "chain" /\ ~Ch!Done /\ Ch!ChainNext
    /\ UNCHANGED <<avars, pvars, svars, rvars>>
ToResolver ==
    /\ phase = "chain" /\ Ch!Done
    /\ R!StartWith([j \in 1..Len(c_result) |-> segsAll[c_result[j]]])
    /\ phase' = "resolve"
    /\ UNCHANGED <<ain, k, scored, segsAll, final, row, pvars, svars, chvars>>
ResolveStep ==
    /\ phase = "resolve" /\ ~R!Done /\ R!ResNext
    /\ UNCHANGED <<avars, pvars, svars, chvars>>
Resolved ==
    /\ phase = "resolve" /\ r_status = "done"
    /\ final' = r_chain /\ phase' = "row"
    /\ UNCHANGED <<ain, k, scored, segsAll, row, pvars, svars, chvars, rvars>>
\* a partial operation of the code (IndexError) was reached: the run is lost (C07)
Aborted ==
    /\ phase = "resolve" /\ r_status = "aborted"
    /\ phase' = "aborted"
    /\ UNCHANGED <<ain, k, scored, segsAll, final, row, pvars, svars, chvars, rvars>>

\* ---- AlignmentResultRow.create
RowPairs(segs) == LET f[j \in 0..Len(segs)] == IF j = 0 THEN <<>> ELSE f[j-1] \o FilterSeq(segs[j].pos, R!IsPair)
                  IN f[Len(segs)]
RefX(p) == X(p.r)
MakeRow ==
    /\ phase = "row"
    /\ LET ps     == RowPairs(final)
           sorted == StableSortBy(ps, RefX)
           first  == IF ps = <<>> THEN R!NullPos ELSE sorted[1]
           last   == IF ps = <<>> THEN R!NullPos ELSE sorted[Len(sorted)]
       IN row' = [pairs |-> [j \in 1..Len(ps) |-> <<Id(ps[j].r), Id(ps[j].q)>>],
                  qStart |-> IF ain.rev THEN X(last.q) ELSE X(first.q),
                  qEnd   |-> IF ain.rev THEN X(first.q) ELSE X(last.q),
                  rStart |-> X(first.r), rEnd |-> X(last.r),
                  conf   |-> LET g[j \in 0..Len(final)] == IF j = 0 THEN 0 ELSE g[j-1] + R!Score(final[j])
                             IN g[Len(final)]]
    /\ phase' = "done"
    /\ UNCHANGED <<ain, k, scored, segsAll, final, pvars, svars, chvars, rvars>>

CoreNext == StartPeak \/ PairStep \/ ToSegmenter \/ SegStep \/ CollectPeak \/ Untouched \/ ToChainer \/ ChainStep
            \/ ToResolver \/ ResolveStep \/ Resolved \/ Aborted \/ MakeRow
Done == phase \in {"done", "aborted"}

-----------------------------------------------------------------------------
(* C01: a reported alignment is a one-to-one, collinear matching of real labels.                       *)
(* pairs: Seq(<<r, q>>) label numbers in listed order; nRef, qLo..qHi: label numbers that exist        *)
C01_Failed(pairs, rev, nRef, qLo, qHi) ==
    (IF \A j \in 1..Len(pairs) : pairs[j][1] \in 1..nRef THEN {} ELSE {"reference_label_exists"})
    \cup (IF \A j \in 1..Len(pairs) : pairs[j][2] \in qLo..qHi THEN {} ELSE {"query_label_exists"})
    \cup (IF \A a, b \in 1..Len(pairs) : a # b => pairs[a][1] # pairs[b][1] THEN {} ELSE {"reference_label_at_most_once"})
    \cup (IF \A a, b \in 1..Len(pairs) : a # b => pairs[a][2] # pairs[b][2] THEN {} ELSE {"query_label_at_most_once"})
    \cup (IF \A j \in 1..(Len(pairs)-1) : pairs[j][1] < pairs[j+1][1] THEN {} ELSE {"reference_strictly_ascending"})
    \cup (IF \A j \in 1..(Len(pairs)-1) : IF rev THEN pairs[j][2] > pairs[j+1][2] ELSE pairs[j][2] < pairs[j+1][2]
          THEN {} ELSE {"query_strictly_monotone_for_orientation"})

(* C04: Confidence is exactly the configured score of what is reported.                                *)
(* segs: the row's segments as [peak, pos : Seq([k,r,q,sh,sc])] ; conf: reported confidence (x dpden)   *)
SumOver(segs) == LET g[a \in 0..Len(segs)] == IF a = 0 THEN 0 ELSE g[a-1] + R!SumSc(segs[a].pos) IN g[Len(segs)]
AbsOf(p, peak) == IF p.k = "Q" THEN X(p.q) + peak ELSE X(p.r)
C04_Failed(in, segs, conf) ==
    LET par  == in.par
        refL == RefLabels(in.ref)
        qryL == QryLabels(in.qry, in.qlen, in.shift, in.rev)
        pairsOf(a) == {j \in 1..Len(segs[a].pos) : segs[a].pos[j].k = "P"}
        expSc(p) == IF p.k = "P" THEN par.dpden * par.sp - par.dpnum * AbsV(p.sh) ELSE par.dpden * par.su
        hasR(a, l) == \E j \in 1..Len(segs[a].pos) : segs[a].pos[j].k # "Q" /\ segs[a].pos[j].r = l
        hasQ(a, l) == \E j \in 1..Len(segs[a].pos) : segs[a].pos[j].k # "R" /\ segs[a].pos[j].q = l
    IN (IF \A a \in 1..Len(segs) : \A j \in 1..Len(segs[a].pos) :
              LET p == segs[a].pos[j] IN
              /\ p.k \in {"P", "R", "Q"}
              /\ (p.k # "Q" => Id(p.r) \in 1..Len(refL) /\ refL[Id(p.r)] = p.r)
              /\ (p.k # "R" => \E m \in 1..Len(qryL) : qryL[m] = p.q)
        THEN {} ELSE {"positions_refer_to_real_labels"})
     \cup (IF \A a \in 1..Len(segs) : \A j \in pairsOf(a) :
                 LET p == segs[a].pos[j] IN p.sh = X(p.q) - (X(p.r) - segs[a].peak)
           THEN {} ELSE {"offset_is_distance_from_seed_diagonal"})
     \cup (IF \A a \in 1..Len(segs) : \A j \in pairsOf(a) : AbsV(segs[a].pos[j].sh) <= par.maxD
           THEN {} ELSE {"offset_within_maxPairDistance"})
     \cup (IF \A a \in 1..Len(segs) : \A j \in 1..Len(segs[a].pos) : segs[a].pos[j].sc = expSc(segs[a].pos[j])
           THEN {} ELSE {"position_scores_use_configured_values"})
     \cup (IF conf = SumOver(segs) THEN {} ELSE {"confidence_is_sum_over_segments"})
     \cup (IF \A a \in 1..Len(segs) : \A j \in 1..(Len(segs[a].pos)-1) :
                 AbsOf(segs[a].pos[j], segs[a].peak) <= AbsOf(segs[a].pos[j+1], segs[a].peak)
           THEN {} ELSE {"positions_in_span_order"})
     \cup (IF \A a \in 1..Len(segs) :
                 segs[a].pos = <<>> \/
                 \* the span is measured on each map's own axis: between the segment's first and last reference label
                 \* for reference labels, between its first and last query label for query labels (an end position
                 \* without a label of that map is taken over through the seed diagonal). A label that COINCIDES with
                 \* an end label (twin labels) is on the border, not inside, however far the end pair is off the diagonal
                 LET f == segs[a].pos[1]
                     l == segs[a].pos[Len(segs[a].pos)]
                     rlo == IF f.k # "Q" THEN X(f.r) ELSE X(f.q) + segs[a].peak
                     rhi == IF l.k # "Q" THEN X(l.r) ELSE X(l.q) + segs[a].peak
                     qlo == IF f.k # "R" THEN X(f.q) ELSE X(f.r) - segs[a].peak
                     qhi == IF l.k # "R" THEN X(l.q) ELSE X(l.r) - segs[a].peak
                 IN /\ \A m \in 1..Len(refL) : (rlo < X(refL[m]) /\ X(refL[m]) < rhi) => hasR(a, refL[m])
                    /\ \A m \in 1..Len(qryL) : (qlo < X(qryL[m]) /\ X(qryL[m]) < qhi) => hasQ(a, qryL[m])
           THEN {} ELSE {"no_label_inside_span_unaccounted"})
     \cup (IF \A a, b \in 1..Len(segs) : \A j \in 1..Len(segs[a].pos) : \A m \in 1..Len(segs[b].pos) :
                 (<<a, j>> # <<b, m>> /\ segs[a].pos[j].k # "Q" /\ segs[b].pos[m].k # "Q")
                    => Id(segs[a].pos[j].r) # Id(segs[b].pos[m].r)
           THEN {} ELSE {"reference_label_counted_twice"})
     \cup (IF \A a, b \in 1..Len(segs) : \A j \in 1..Len(segs[a].pos) : \A m \in 1..Len(segs[b].pos) :
                 (<<a, j>> # <<b, m>> /\ segs[a].pos[j].k # "R" /\ segs[b].pos[m].k # "R")
                    => Id(segs[a].pos[j].q) # Id(segs[b].pos[m].q)
           THEN {} ELSE {"query_label_counted_twice"})
=============================================================================
