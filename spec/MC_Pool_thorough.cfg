CONSTANTS
  Tasks = {1, 2, 3, 4, 5}
  Workers = {1, 2, 3, 4}
  Calls <- CallsFn
  Ship = "per_task"
INIT Init
NEXT Next
INVARIANT Inv_C09
INVARIANT Inv_C10
INVARIANT Inv_Once
INVARIANT Inv_SourceIndependent
PROPERTY Prop_C09_Monotone
CHECK_DEADLOCK TRUE
