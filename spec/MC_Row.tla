------------------------------- MODULE MC_Row -------------------------------
(* (A) every valid matching on an NR x NQ label grid, both orientations:      *)
(* the implementation-shaped encoder satisfies C03.                           *)
EXTENDS Row, Json, IOUtils, SequencesExt

CONSTANTS NR, NQ

Init == \E r \in BOOLEAN : \E m \in Matchings(NR, NQ, r) : InitWith(m, r)
Next == RowNext
Inv_C03 == Done => C03_Holds(pairs, rev, ResultText)
\* the text layer round-trips (sanity of ParseHit / RunsToText)
Inv_Text == Done => ParseHit(ResultText) = [ok |-> TRUE, runs |-> runs]

ExportSpace == {[pairs |-> m, rev |-> r] : r \in {FALSE}, m \in Matchings(NR, NQ, FALSE)}
               \cup {[pairs |-> m, rev |-> r] : r \in {TRUE}, m \in Matchings(NR, NQ, TRUE)}
ExportInit == InitWith(<<>>, FALSE) /\ ndJsonSerialize(IOEnv.OUT_FILE, SetToSeq(ExportSpace))
ExportNext == FALSE /\ UNCHANGED rvars
=============================================================================
