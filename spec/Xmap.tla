-------------------------------- MODULE Xmap --------------------------------
(***************************************************************************)
(* XMAP records: what AlignmentResultRow.create + XmapReader.write-        *)
(* Alignments put into a record (Impl), the record-level properties C01,   *)
(* C02 (and C03 through Row), and the read-back property C18.              *)
(*                                                                         *)
(* All coordinates are integers in deci-bp (the text has one decimal);     *)
(* Confidence is in 1/100.                                                 *)
(* ref = [id, len, x : Seq]   the reference as in the CMAP text            *)
(* qry = [id, len, x : Seq]   the query as in the CMAP text (untrimmed)    *)
(* rec = [id, q, r, qs, qe, rs, re, ori, conf, hit, qlen, rlen, rest,      *)
(*        pairs : Seq(<<r, q>>)]                                           *)
(***************************************************************************)
EXTENDS Geometry, TLC

CONSTANT LastRunNeedsTwoOps
VARIABLES pairs, rev, ps, ri, k, prevQ, ops, a, cnt, prevOp, runs, pc
RowM == INSTANCE Row

xvars == <<pairs, rev, ps, ri, k, prevQ, ops, a, cnt, prevOp, runs, pc>>

-----------------------------------------------------------------------------
(* Impl: header fields the way the code computes them                       *)
(* trimmed query: x - x_1, length = x_n - x_1 + 1 bp = +10 deci;            *)
(* fed coordinate of label number q: forward x_q - x_1, reverse (len-1) - (x_q - x_1) = x_n - x_q *)
Fed(qry, q, reverse) == IF reverse THEN qry.x[Len(qry.x)] - qry.x[q] ELSE qry.x[q] - qry.x[1]
RefCoord(p, ref) == ref.x[p[1]]
HeaderImpl(ref, qry, prs, reverse) ==
    LET byRef == StableSortBy(prs, LAMBDA p : ref.x[p[1]])
        first == byRef[1]
        last  == byRef[Len(byRef)]
    IN [qs |-> Fed(qry, (IF reverse THEN last ELSE first)[2], reverse),
        qe |-> Fed(qry, (IF reverse THEN first ELSE last)[2], reverse),
        rs |-> ref.x[first[1]], re |-> ref.x[last[1]],
        qlen |-> qry.x[Len(qry.x)] - qry.x[1] + 10,
        rlen |-> (ref.len \div 10) * 10]

-----------------------------------------------------------------------------
(* C01 on a record *)
C01_Record_Failed(ref, qry, rec) ==
    LET p == rec.pairs  rv == rec.ori = "-" IN
    (IF Len(p) >= 1 THEN {} ELSE {"record_has_at_least_one_pair"})
    \cup (IF \A j \in 1..Len(p) : p[j][1] \in 1..Len(ref.x) THEN {} ELSE {"reference_label_exists"})
    \cup (IF \A j \in 1..Len(p) : p[j][2] \in 1..Len(qry.x) THEN {} ELSE {"query_label_exists"})
    \cup (IF \A i, j \in 1..Len(p) : i # j => p[i][1] # p[j][1] THEN {} ELSE {"reference_label_at_most_once"})
    \cup (IF \A i, j \in 1..Len(p) : i # j => p[i][2] # p[j][2] THEN {} ELSE {"query_label_at_most_once"})
    \cup (IF \A j \in 1..(Len(p)-1) : p[j][1] < p[j+1][1] THEN {} ELSE {"reference_strictly_ascending"})
    \cup (IF \A j \in 1..(Len(p)-1) : IF rv THEN p[j][2] > p[j+1][2] ELSE p[j][2] < p[j+1][2]
          THEN {} ELSE {"query_strictly_monotone_for_orientation"})

(* C02 on a record that satisfies C01: kth record of its file *)
C02_Record_Failed(ref, qry, rec, kth) ==
    LET p  == rec.pairs
        n  == Len(qry.x)
        qf == p[1][2]
        ql == p[Len(p)][2]
    IN (IF rec.id = kth THEN {} ELSE {"XmapEntryID_counts_from_1"})
     \cup (IF rec.r = ref.id /\ rec.q = qry.id THEN {} ELSE {"ids_name_input_maps"})
     \cup (IF rec.ori \in {"+", "-"} THEN {} ELSE {"orientation_is_plus_or_minus"})
     \cup (IF rec.rlen = (ref.len \div 10) * 10 THEN {} ELSE {"RefLen_is_reference_length"})
     \cup (IF rec.qlen = qry.x[n] - qry.x[1] + 10 THEN {} ELSE {"QryLen_is_first_to_last_label"})
     \cup (IF rec.rs = ref.x[p[1][1]] THEN {} ELSE {"RefStartPos_is_first_listed_reference_label"})
     \cup (IF rec.re = ref.x[p[Len(p)][1]] THEN {} ELSE {"RefEndPos_is_last_listed_reference_label"})
     \cup (IF rec.ori = "+"
           THEN (IF rec.qs = qry.x[qf] - qry.x[1] THEN {} ELSE {"QryStartPos_offset_from_first_label"})
                \cup (IF rec.qe = qry.x[ql] - qry.x[1] THEN {} ELSE {"QryEndPos_offset_from_first_label"})
                \cup (IF rec.qs <= rec.qe THEN {} ELSE {"start_le_end_for_plus"})
           ELSE IF rec.ori = "-"
           THEN (IF rec.qs = qry.x[n] - qry.x[ql] THEN {} ELSE {"QryStartPos_offset_from_last_label"})
                \cup (IF rec.qe = qry.x[n] - qry.x[qf] THEN {} ELSE {"QryEndPos_offset_from_last_label"})
                \cup (IF rec.qs >= rec.qe THEN {} ELSE {"start_ge_end_for_minus"})
           ELSE {})

(* C18: reading the file back with the project's reader: rb = the BionanoAlignment fields             *)
(* rb = [id, q, r, qs, qe, rs, re (integers, bp), rev, conf100, hit, qlen, rlen, pairs, rpos, qpos]   *)
(*   rpos / qpos: coordinates of the read-back pairs in deci-bp                                        *)
Trunc10(v) == v \div 10          \* int() of a non-negative value written with one decimal
C18_Record_Failed(ref, qry, rec, rb) ==
    (IF rb.id = rec.id /\ rb.q = rec.q /\ rb.r = rec.r THEN {} ELSE {"same_ids"})
    \cup (IF rb.rev = (rec.ori = "-") THEN {} ELSE {"same_orientation"})
    \cup (IF rb.hit = rec.hit THEN {} ELSE {"same_HitEnum"})
    \cup (IF rb.pairs = rec.pairs THEN {} ELSE {"same_label_pairs"})
    \cup (IF rb.qs = Trunc10(rec.qs) /\ rb.qe = Trunc10(rec.qe) /\ rb.rs = Trunc10(rec.rs) /\ rb.re = Trunc10(rec.re)
          THEN {} ELSE {"coordinates_truncated_to_integers"})
    \cup (IF rb.qlen = Trunc10(rec.qlen) /\ rb.rlen = Trunc10(rec.rlen) THEN {} ELSE {"lengths_truncated_to_integers"})
    \cup (IF rb.conf100 = rec.conf THEN {} ELSE {"confidence_to_two_decimals"})
    \cup (IF Len(rb.rpos) = Len(rec.pairs) /\ Len(rb.qpos) = Len(rec.pairs)
             /\ \A j \in 1..Len(rec.pairs) :
                   /\ rec.pairs[j][1] \in 1..Len(ref.x) /\ rec.pairs[j][2] \in 1..Len(qry.x)
                   /\ rb.rpos[j] = ref.x[rec.pairs[j][1]]
                   /\ rb.qpos[j] = qry.x[rec.pairs[j][2]] - qry.x[1]
          THEN {} ELSE {"pair_coordinates_from_the_maps"})

(* C18, the other end of the round trip: what the reader returns against what the WRITER WAS HANDED (the row       *)
(* objects; lines of kind "readbackg", produced where the harness builds or captures the rows itself).             *)
(* given = [q, r, rev, qs, qe, rs, re, qlen, rlen (deci-bp, value rounded to the one decimal the format has),      *)
(*          conf1000 (confidence * 1000, rounded), hit, pairs]                                                     *)
AbsX(v) == IF v < 0 THEN -v ELSE v
C18_Given_Failed(given, rb) ==
    (IF rb.q = given.q /\ rb.r = given.r THEN {} ELSE {"handed_ids"})
    \cup (IF rb.rev = given.rev THEN {} ELSE {"handed_orientation"})
    \cup (IF rb.hit = given.hit THEN {} ELSE {"handed_HitEnum"})
    \cup (IF rb.pairs = given.pairs THEN {} ELSE {"handed_label_pairs"})
    \cup (IF rb.qs = Trunc10(given.qs) /\ rb.qe = Trunc10(given.qe) /\ rb.rs = Trunc10(given.rs) /\ rb.re = Trunc10(given.re)
          THEN {} ELSE {"handed_coordinates_truncated_to_integers"})
    \cup (IF rb.qlen = Trunc10(given.qlen) /\ rb.rlen = Trunc10(given.rlen) THEN {} ELSE {"handed_lengths_truncated_to_integers"})
    \cup (IF AbsX(rb.conf100 * 10 - given.conf1000) <= 5 THEN {} ELSE {"handed_confidence_to_two_decimals"})
=============================================================================
