-------------------------------- MODULE Runs --------------------------------
(***************************************************************************)
(* A long-lived process that calls Program.run several times (a driver, a  *)
(* notebook, the benchmark scripts): the "on every repetition" part of     *)
(* C09.  What a run's tasks see of the run's inputs depends on two things  *)
(* that live OUTSIDE a single run:                                         *)
(*   Delivery = "argument" : the references travel with every task         *)
(*                           (src/workflow_coordinator.py: the task list   *)
(*                           is [(referenceMaps, q) for q in queryMaps])   *)
(*   Delivery = "fork"     : the workers read them from state inherited    *)
(*                           when the worker process was forked            *)
(*   ClearsPool            : TRUE = the worker processes end with the map  *)
(*                           (p_tqdm: pool.clear() after every map);       *)
(*                           FALSE = the process-wide pool cache of pathos *)
(*                           (keyed by the worker count) keeps them alive  *)
(* Pool.tla models ONE map; this module models the life of the pools       *)
(* across maps.  Safety: every task of a run is computed from that run's   *)
(* inputs.  It holds for the code as it is ("argument", TRUE), for either  *)
(* single change, and fails for ("fork", FALSE) - the named deviation      *)
(* MC_Runs_stale.cfg, which is what a seeded change of round 8 did.        *)
(***************************************************************************)
EXTENDS Integers, Sequences, FiniteSets

CONSTANTS Envs,        \* input sets (reference files) a run may be given
          Counts,      \* worker counts (--cpus values) a run may use
          MaxRuns, TasksPerRun,
          Delivery, ClearsPool

VARIABLES run,         \* number of the current run (0 = none yet)
          env,         \* input set of the current run
          cpus,        \* worker count of the current run
          live,        \* [Counts -> Envs \cup {0}] : 0 = no live workers for this count, else the inputs they were forked with
          done,        \* tasks of the current run finished so far
          used,        \* history: <<run, inputs the task was computed from>> per finished task
          phase
rvars == <<run, env, cpus, live, done, used, phase>>

Init == run = 0 /\ env \in Envs /\ cpus \in Counts /\ live = [n \in Counts |-> 0] /\ done = 0 /\ used = <<>>
        /\ phase = "idle"

\* Program.run starts: a pool for the requested worker count is taken from the cache or forked now
Start(e, n) ==
    /\ phase = "idle" /\ run < MaxRuns
    /\ run' = run + 1 /\ env' = e /\ cpus' = n /\ done' = 0
    /\ live' = IF live[n] = 0 THEN [live EXCEPT ![n] = e] ELSE live      \* forked now: inherits the current inputs
    /\ phase' = "map" /\ UNCHANGED used

\* one task runs in a worker of that pool
Task ==
    /\ phase = "map" /\ done < TasksPerRun
    /\ used' = Append(used, <<run, IF Delivery = "argument" THEN env ELSE live[cpus]>>)
    /\ done' = done + 1 /\ UNCHANGED <<run, env, cpus, live, phase>>

\* the map is exhausted; the files are written
Finish ==
    /\ phase = "map" /\ done = TasksPerRun
    /\ live' = IF ClearsPool THEN [live EXCEPT ![cpus] = 0] ELSE live
    /\ phase' = "idle" /\ UNCHANGED <<run, env, cpus, done, used>>

RunsNext == (\E e \in Envs, n \in Counts : Start(e, n)) \/ Task \/ Finish

\* the inputs of run k, as a history function of `used`' companion: remembered at Start
VARIABLE given         \* [1..run -> Envs]
InitG == Init /\ given = <<>>
NextG == /\ RunsNext
         /\ given' = IF run' # run THEN Append(given, env') ELSE given
\* every task was computed from the inputs its own run was given
Repetition(u, g) == \A i \in 1..Len(u) : u[i][1] \in 1..Len(g) /\ u[i][2] = g[u[i][1]]
Inv_Repetition == Repetition(used, given)
=============================================================================
