------------------------------ MODULE Trace_Join ------------------------------
(* (C) AlignmentResultRow.resolve on pairs of REAL rows (rows built from TLC-enumerated lattice runs, and rows   *)
(* produced by the real Aligner for a whole query and for a second-pass fragment of it).                          *)
(*  {"A": {"segs": [{"peak", "pos": [{k,r,q,sh,sc}]}]}, "B": {...}, "rev": b,                                       *)
(*   "obs": {"status": "ok"|"exc:..", "joined": b, "pairs": [[r,q],...]}}      A = self, B = the other row          *)
EXTENDS Join, Json, IOUtils
Traces == ndJsonDeserialize(IOEnv.TRACE_FILE)
VARIABLES t, pc
tr == Traces[t]
Init == /\ t \in 1..Len(Traces) /\ pc = "judge"
        /\ chain = <<>> /\ i1 = 0 /\ i0 = 0 /\ lastKind = "" /\ status = "unused"
RowFrom(x, base) == [segs |-> [j \in 1..Len(x.segs) |-> [pos |-> x.segs[j].pos, ix |-> [i \in 1..Len(x.segs[j].pos) |-> i],
                                                          src |-> base + j, peak |-> x.segs[j].peak]]]
Verdict ==
    LET A == RowFrom(tr.A, 0)  B == RowFrom(tr.B, 100)
        PA == IdPairs(RowPairsOf(A.segs))  PB == IdPairs(RowPairsOf(B.segs))
        impl == JoinImpl(A, B)
        failed == IF tr.obs.status # "ok" THEN {"resolve_raised_" \o tr.obs.status}
                  ELSE Join_Failed(PA, PB, tr.rev, tr.obs.joined, tr.obs.pairs)
        drift == IF tr.obs.status = "ok" /\ impl.status = "ok" /\ impl.joined = tr.obs.joined
                    /\ (~impl.joined \/ IdPairs(RowPairsOf(impl.segs)) = tr.obs.pairs) THEN {}
                 ELSE IF tr.obs.status # "ok" /\ impl.status = "abort" THEN {}
                 ELSE {"join_differs_from_spec"}
    IN IF failed \cup drift = {} THEN TRUE ELSE PrintT(ToString(<<"V", t, failed, drift>>))
Report == pc = "judge" /\ Verdict /\ pc' = "reported" /\ UNCHANGED <<t, resvars>>
Terminated == pc = "reported" /\ UNCHANGED <<t, pc, resvars>>
Next == Report \/ Terminated
=============================================================================
