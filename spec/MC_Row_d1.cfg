CONSTANTS
  NR = 3
  NQ = 3
  LastRunNeedsTwoOps = TRUE
INIT Init
NEXT Next
INVARIANT Inv_C03
INVARIANT Inv_Text
CHECK_DEADLOCK FALSE
