------------------------------ MODULE Pairing ------------------------------
(***************************************************************************)
(* AlignerEngine.align (src/alignment/aligner.py): pairing of reference    *)
(* and query labels along a seed diagonal, stage by stage, and property    *)
(* C12 as clauses over (input, observed position list).                    *)
(*                                                                         *)
(* inp = [ref   : ascending reference coordinates (label numbers 1..n),    *)
(*        qry   : ascending coordinates of the query (fragment) labels,    *)
(*        qlen  : length of the whole trimmed query,                       *)
(*        shift : label-number offset of the fragment,                     *)
(*        start, end : referenceStartPosition / referenceEndPosition,      *)
(*        maxD  : maxDistance,  rev : strand]                              *)
(* A position is [k |-> "P"|"R"|"Q", r |-> label, q |-> label, sh |-> Int] *)
(***************************************************************************)
EXTENDS Geometry, TLC

Pos(k, r, q, sh) == [k |-> k, r |-> r, q |-> q, sh |-> sh]
AbsPos(p, start) == IF p.k = "Q" THEN X(p.q) + start ELSE X(p.r)

-----------------------------------------------------------------------------
(* Implementation-shaped stages *)
VARIABLES inp, win, qls, cand, keptQ, keptR, unp, out, pc
pvars == <<inp, win, qls, cand, keptQ, keptR, unp, out, pc>>

InitWith(in) ==
    /\ inp = in /\ win = <<>> /\ qls = <<>> /\ cand = <<>> /\ keptQ = <<>> /\ keptR = <<>>
    /\ unp = <<>> /\ out = <<>> /\ pc = "window"
\* the same as an action (used when the module is composed into AlignCore)
StartWith(in) ==
    /\ inp' = in /\ win' = <<>> /\ qls' = <<>> /\ cand' = <<>> /\ keptQ' = <<>> /\ keptR' = <<>>
    /\ unp' = <<>> /\ out' = <<>> /\ pc' = "window"

\* dropwhile(x < start - D) then takewhile(x <= end + D) over the ascending reference labels
DropWhileLess(ls, bound) ==
    LET n == Len(ls)
        first == IF \E j \in 1..n : X(ls[j]) >= bound THEN CHOOSE j \in 1..n : X(ls[j]) >= bound /\ \A i \in 1..(j-1) : X(ls[i]) < bound
                 ELSE n + 1
    IN SubSeq(ls, first, n)
TakeWhileLeq(ls, bound) ==
    LET n == Len(ls)
        stop == IF \E j \in 1..n : X(ls[j]) > bound THEN CHOOSE j \in 1..n : X(ls[j]) > bound /\ \A i \in 1..(j-1) : X(ls[i]) <= bound
                ELSE n + 1
    IN SubSeq(ls, 1, stop - 1)

Window ==
    /\ pc = "window"
    /\ win' = TakeWhileLeq(DropWhileLess(RefLabels(inp.ref), inp.start - inp.maxD), inp.end + inp.maxD)
    /\ qls' = QryLabels(inp.qry, inp.qlen, inp.shift, inp.rev)
    /\ pc' = "candidates"
    /\ UNCHANGED <<inp, cand, keptQ, keptR, unp, out>>

\* reference-major generation of every (reference, query) pair within maxD of the diagonal
CandidatesOf(rl) ==
    LET a  == X(rl) - inp.start
        qs == TakeWhileLeq(DropWhileLess(qls, a - inp.maxD), a + inp.maxD)
    IN [j \in 1..Len(qs) |-> Pos("P", rl, qs[j], X(qs[j]) - a)]
Candidates ==
    /\ pc = "candidates"
    /\ cand' = LET f[j \in 0..Len(win)] == IF j = 0 THEN <<>> ELSE f[j-1] \o CandidatesOf(win[j]) IN f[Len(win)]
    /\ pc' = "dedupQ"
    /\ UNCHANGED <<inp, win, qls, keptQ, keptR, unp, out>>

\* __deduplicateByKey: stable sort by key, per group the FIRST minimum of |sh|
FirstMinPerGroup(s, Key(_)) ==
    LET t == StableSortBy(s, Key)
        isWinner(j) == /\ \A i \in 1..Len(t) : Key(t[i]) = Key(t[j]) => AbsV(t[i].sh) >= AbsV(t[j].sh)
                       /\ \A i \in 1..(j-1) : Key(t[i]) = Key(t[j]) => AbsV(t[i].sh) > AbsV(t[j].sh)
        f[j \in 0..Len(t)] == IF j = 0 THEN <<>> ELSE IF isWinner(j) THEN Append(f[j-1], t[j]) ELSE f[j-1]
    IN f[Len(t)]
QKey(p) == Id(p.q)
RKey(p) == Id(p.r)
DedupQ == /\ pc = "dedupQ" /\ keptQ' = FirstMinPerGroup(cand, QKey) /\ pc' = "dedupR"
          /\ UNCHANGED <<inp, win, qls, cand, keptR, unp, out>>
DedupR == /\ pc = "dedupR" /\ keptR' = FirstMinPerGroup(keptQ, RKey) /\ pc' = "unpaired"
          /\ UNCHANGED <<inp, win, qls, cand, keptQ, unp, out>>

Unpaired ==
    /\ pc = "unpaired"
    /\ LET rIds == {Id(keptR[j].r) : j \in 1..Len(keptR)}
           qIds == {Id(keptR[j].q) : j \in 1..Len(keptR)}
           ur == LET f[j \in 0..Len(win)] == IF j = 0 THEN <<>> ELSE
                        IF Id(win[j]) \in rIds THEN f[j-1] ELSE Append(f[j-1], Pos("R", win[j], NullLabel, 0))
                 IN f[Len(win)]
           uq == LET f[j \in 0..Len(qls)] == IF j = 0 THEN <<>> ELSE
                        IF Id(qls[j]) \in qIds THEN f[j-1] ELSE Append(f[j-1], Pos("Q", NullLabel, qls[j], 0))
                 IN f[Len(qls)]
       IN unp' = ur \o uq
    /\ pc' = "sort"
    /\ UNCHANGED <<inp, win, qls, cand, keptQ, keptR, out>>

SortKey(p) == AbsPos(p, inp.start)
Sort == /\ pc = "sort" /\ out' = StableSortBy(keptR \o unp, SortKey) /\ pc' = "done"
        /\ UNCHANGED <<inp, win, qls, cand, keptQ, keptR, unp>>

PairNext == Window \/ Candidates \/ DedupQ \/ DedupR \/ Unpaired \/ Sort
Done == pc = "done"

-----------------------------------------------------------------------------
(* C12 as clauses over (input, observed list) *)
InDomain(in) == /\ NonDecreasing(in.ref) /\ NonDecreasing(in.qry) /\ in.maxD >= 0 /\ Len(in.qry) >= 1
                /\ in.end >= in.start

WindowIds(in) == {i \in 1..Len(in.ref) : in.start - in.maxD <= in.ref[i] /\ in.ref[i] <= in.end + in.maxD}

C12_Failed(in, obs) ==
    LET refL   == RefLabels(in.ref)
        qryL   == QryLabels(in.qry, in.qlen, in.shift, in.rev)
        n      == Len(obs)
        P      == {j \in 1..n : obs[j].k = "P"}
        Rj     == {j \in 1..n : obs[j].k \in {"P", "R"}}
        Qj     == {j \in 1..n : obs[j].k \in {"P", "Q"}}
        wantR  == {refL[i] : i \in WindowIds(in)}
        wantQ  == SeqToSet(qryL)
        a(rl)  == X(rl) - in.start
        d(rl, ql) == AbsV(X(ql) - a(rl))
    IN (IF \A j \in 1..n : obs[j].k \in {"P", "R", "Q"} THEN {} ELSE {"position_kinds"})
     \cup (IF {obs[j].r : j \in Rj} = wantR /\ \A i, j \in Rj : i # j => Id(obs[i].r) # Id(obs[j].r)
           THEN {} ELSE {"every_window_reference_label_exactly_once"})
     \cup (IF {obs[j].q : j \in Qj} = wantQ /\ \A i, j \in Qj : i # j => Id(obs[i].q) # Id(obs[j].q)
           THEN {} ELSE {"every_query_label_exactly_once"})
     \cup (IF \A j \in 1..(n-1) : AbsPos(obs[j], in.start) <= AbsPos(obs[j+1], in.start)
           THEN {} ELSE {"ascending_position_order"})
     \cup (IF \A j \in P : obs[j].sh = X(obs[j].q) - a(obs[j].r) THEN {} ELSE {"offset_formula"})
     \cup (IF \A j \in P : AbsV(X(obs[j].q) - a(obs[j].r)) <= in.maxD THEN {} ELSE {"pair_within_maxDistance"})
     \cup (IF \A i, j \in P : X(obs[i].r) < X(obs[j].r) => X(obs[i].q) <= X(obs[j].q)
           THEN {} ELSE {"order_preserving_coordinates"})
     \cup (IF \A i, j \in P : Id(obs[i].r) < Id(obs[j].r) =>
                  IF in.rev THEN Id(obs[i].q) > Id(obs[j].q) ELSE Id(obs[i].q) < Id(obs[j].q)
           THEN {} ELSE {"label_numbers_monotone"})
     \cup (IF \A rl \in wantR : \A ql \in wantQ :
                  (/\ d(rl, ql) <= in.maxD
                   /\ \A r2 \in SeqToSet(refL) : r2 # rl => d(r2, ql) > d(rl, ql)
                   /\ \A q2 \in wantQ : q2 # ql => d(rl, q2) > d(rl, ql))
                  => \E j \in P : obs[j].r = rl /\ obs[j].q = ql
           THEN {} ELSE {"mutual_nearest_neighbours_paired"})
C12_Holds(in, obs) == C12_Failed(in, obs) = {}
=============================================================================
