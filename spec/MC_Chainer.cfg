CONSTANTS
  C = 3
  Off = 1
  MaxSegs = 3
  Scores = {2}
  Variants = {0, 1}
  Mults <- MultsAll
  Scale = 55440
  ReverseNegatesQueryDistance = FALSE
INIT Init
NEXT Next
INVARIANT Inv_C14
CHECK_DEADLOCK FALSE
