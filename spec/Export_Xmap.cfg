CONSTANTS
  NR = 4
  NQ = 4
  RefCoords = {105, 217, 330, 468, 520}
  QryCoords = {31, 140, 262, 395, 447}
  LastRunNeedsTwoOps = FALSE
INIT Init
NEXT Next
INVARIANT ExportInv
CONSTRAINT ExportStop
CHECK_DEADLOCK FALSE
