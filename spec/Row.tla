-------------------------------- MODULE Row --------------------------------
(***************************************************************************)
(* HitEnum (CIGAR) encoding of an alignment row:                           *)
(* src/alignment/alignment_results.py, AlignmentResultRow.cigarString =    *)
(* __getHitEnums (walk over reference label numbers) followed by           *)
(* __aggregateHitEnums (run-length aggregation), as a state machine; and   *)
(* property C03 as clauses over (pairs, orientation, observed string).     *)
(*                                                                         *)
(* pairs : Seq(<<r, q>>) label numbers in the order the row lists them     *)
(* rev   : orientation '-'                                                 *)
(* A HitEnum string is handled as Seq(0..255) (character codes), so that   *)
(* TLC itself decides well-formedness of the text.                         *)
(***************************************************************************)
EXTENDS Integers, Sequences, FiniteSets, TLC

CONSTANT LastRunNeedsTwoOps   \* TRUE = pinned-commit deviation D1 (a lone run is never emitted); FALSE = repaired

Abs(x) == IF x < 0 THEN -x ELSE x
Last(s) == s[Len(s)]

-----------------------------------------------------------------------------
(* valid matchings on an NR x NQ grid (used by MC_Row / Export_Row) *)
StrictlyAsc(s) == \A k \in 1..(Len(s)-1) : s[k] < s[k+1]
IncSeqs(N, m) == {s \in [1..m -> 1..N] : StrictlyAsc(s)}
Matchings(NR, NQ, reverse) ==
    UNION {{[k \in 1..m |-> <<rs[k], IF reverse THEN qs[m+1-k] ELSE qs[k]>>] :
              rs \in IncSeqs(NR, m), qs \in IncSeqs(NQ, m)} : m \in 1..(IF NR < NQ THEN NR ELSE NQ)}

ValidMatching(pairs, reverse) ==
    /\ Len(pairs) >= 1
    /\ \A k \in 1..(Len(pairs)-1) :
          /\ pairs[k][1] < pairs[k+1][1]
          /\ IF reverse THEN pairs[k][2] > pairs[k+1][2] ELSE pairs[k][2] < pairs[k+1][2]

-----------------------------------------------------------------------------
(* Implementation-shaped encoder *)
VARIABLES pairs, rev,
          ps,      \* pairs after __removeDuplicateQueryPositionsPreservingLastOne
          ri,      \* referenceIndex of the walk
          k,       \* index of currentPair in ps (Len(ps)+1 = None)
          prevQ,   \* previousQuery
          ops,     \* hit enums emitted so far
          a,       \* aggregation: index of the op being read
          cnt, prevOp, runs,
          pc
rvars == <<pairs, rev, ps, ri, k, prevQ, ops, a, cnt, prevOp, runs, pc>>

\* keep the last pair of every run of consecutive pairs with the same query label
DedupQ(s) == LET keep == {j \in 1..Len(s) : j = Len(s) \/ s[j][2] # s[j+1][2]}
                 f[j \in 0..Len(s)] == IF j = 0 THEN <<>>
                                       ELSE IF j \in keep THEN Append(f[j-1], s[j]) ELSE f[j-1]
             IN f[Len(s)]

Repeat(x, n) == [j \in 1..n |-> x]

InitWith(p, r) ==
    /\ pairs = p /\ rev = r
    /\ ps = DedupQ(p)
    /\ ri = IF p = <<>> THEN 0 ELSE DedupQ(p)[1][1]
    /\ k = 1
    /\ prevQ = IF p = <<>> THEN 0 ELSE DedupQ(p)[1][2]
    /\ ops = <<>> /\ a = 0 /\ cnt = 0 /\ prevOp = "" /\ runs = <<>>
    /\ pc = IF p = <<>> THEN "done" ELSE "walk"

\* one iteration of `for referenceIndex in range(first.r, last.r + 1)`
Walk ==
    /\ pc = "walk" /\ ri <= Last(ps)[1]
    /\ LET haveCur == k <= Len(ps)
           inc     == IF haveCur THEN Abs(ps[k][2] - prevQ) ELSE 0
           ins     == IF inc > 1 THEN Repeat("I", inc - 1) ELSE <<>>
           pq1     == IF inc > 1 THEN ps[k][2] ELSE prevQ
       IN IF haveCur /\ ps[k][1] = ri
          THEN /\ ops' = ops \o ins \o <<"M">> /\ prevQ' = ps[k][2] /\ k' = k + 1
          ELSE IF haveCur /\ ps[k][1] > ri
          THEN /\ ops' = ops \o ins \o <<"D">> /\ prevQ' = pq1 /\ k' = k
          ELSE /\ ops' = ops \o ins /\ prevQ' = pq1 /\ k' = k     \* reference numbers not ascending: nothing emitted
    /\ ri' = ri + 1
    /\ UNCHANGED <<pairs, rev, ps, a, cnt, prevOp, runs, pc>>

WalkEnd ==
    /\ pc = "walk" /\ ri > Last(ps)[1]
    /\ pc' = "agg" /\ a' = 1 /\ cnt' = 1 /\ prevOp' = IF ops = <<>> THEN "" ELSE ops[1]
    /\ UNCHANGED <<pairs, rev, ps, ri, k, prevQ, ops, runs>>

\* one iteration of `for hit in hits[1:]`
AggSame ==
    /\ pc = "agg" /\ a < Len(ops) /\ ops[a+1] = prevOp
    /\ cnt' = cnt + 1 /\ a' = a + 1
    /\ UNCHANGED <<pairs, rev, ps, ri, k, prevQ, ops, prevOp, runs, pc>>
AggNew ==
    /\ pc = "agg" /\ a < Len(ops) /\ ops[a+1] # prevOp
    /\ runs' = Append(runs, <<cnt, prevOp>>) /\ prevOp' = ops[a+1] /\ cnt' = 1 /\ a' = a + 1
    /\ UNCHANGED <<pairs, rev, ps, ri, k, prevQ, ops, pc>>
AggEnd ==
    /\ pc = "agg" /\ a >= Len(ops)
    /\ runs' = IF ops = <<>> \/ (LastRunNeedsTwoOps /\ Len(ops) < 2) THEN runs
               ELSE Append(runs, <<cnt, prevOp>>)
    /\ pc' = "done"
    /\ UNCHANGED <<pairs, rev, ps, ri, k, prevQ, ops, a, cnt, prevOp>>

RowNext == Walk \/ WalkEnd \/ AggSame \/ AggNew \/ AggEnd
Done == pc = "done"

-----------------------------------------------------------------------------
(* text layer: runs <-> character codes *)
OpCode(op) == CASE op = "M" -> 77 [] op = "D" -> 68 [] op = "I" -> 73 [] OTHER -> 63
RECURSIVE Digits(_)
Digits(n) == IF n < 10 THEN <<48 + n>> ELSE Digits(n \div 10) \o <<48 + (n % 10)>>
RECURSIVE RunsToText(_)
RunsToText(rs) == IF rs = <<>> THEN <<>> ELSE Digits(rs[1][1]) \o <<OpCode(rs[1][2])>> \o RunsToText(Tail(rs))
ResultText == RunsToText(runs)

IsDigit(c) == c >= 48 /\ c <= 57
IsOp(c) == c \in {77, 68, 73}
OpName(c) == CASE c = 77 -> "M" [] c = 68 -> "D" [] c = 73 -> "I" [] OTHER -> "?"

\* parse (\d+[MDI])+ ; state = [ok, num (or -1 when no digit yet), runs]
ParseHit(txt) ==
    LET f[j \in 0..Len(txt)] ==
          IF j = 0 THEN [ok |-> TRUE, num |-> -1, runs |-> <<>>]
          ELSE LET p == f[j-1]
                   c == txt[j]
               IN IF ~p.ok THEN p
                  ELSE IF IsDigit(c)
                  THEN [p EXCEPT !.num = IF p.num < 0 THEN c - 48 ELSE
                                         IF p.num > 100000 THEN p.num ELSE p.num * 10 + (c - 48)]
                  ELSE IF IsOp(c) /\ p.num >= 0
                  THEN [ok |-> TRUE, num |-> -1, runs |-> Append(p.runs, <<p.num, OpName(c)>>)]
                  ELSE [p EXCEPT !.ok = FALSE]
    IN [ok |-> f[Len(txt)].ok /\ f[Len(txt)].num = -1, runs |-> f[Len(txt)].runs]

-----------------------------------------------------------------------------
(* C03: replaying the string from the first pair reproduces exactly the pairs *)
\* Decode: cursor <<r, q>> ; M emits and advances both, D advances reference, I advances query in strand direction
\* (iterates over runs, not over single operations, to keep TLC's recursion shallow)
Decode(rs, first, reverse) ==
    LET dir == IF reverse THEN -1 ELSE 1
        f[j \in 0..Len(rs)] ==
            IF j = 0 THEN [r |-> first[1], q |-> first[2], out |-> <<>>]
            ELSE LET p == f[j-1]
                     n == rs[j][1]
                 IN CASE rs[j][2] = "M" -> [r |-> p.r + n, q |-> p.q + dir * n,
                                            out |-> p.out \o [i \in 1..n |-> <<p.r + i - 1, p.q + dir * (i - 1)>>]]
                      [] rs[j][2] = "D" -> [p EXCEPT !.r = p.r + n]
                      [] OTHER          -> [p EXCEPT !.q = p.q + dir * n]
    IN f[Len(rs)].out

C03_Failed(ps_, reverse, txt) ==
    LET p  == ParseHit(txt)
        rs == p.runs
    IN IF ps_ = <<>> THEN (IF txt = <<>> THEN {} ELSE {"nonempty_without_pairs"})
       ELSE IF txt = <<>> THEN {"empty_although_record_has_a_pair"}
       ELSE IF ~p.ok \/ rs = <<>> THEN {"well_formed_text"}
       ELSE (IF \A j \in 1..Len(rs) : rs[j][1] >= 1 THEN {} ELSE {"counts_at_least_one"})
        \cup (IF rs[1][2] = "M" THEN {} ELSE {"starts_with_M"})
        \cup (IF Last(rs)[2] = "M" THEN {} ELSE {"ends_with_M"})
        \cup (IF \A j \in 1..(Len(rs)-1) : rs[j][2] # rs[j+1][2] THEN {} ELSE {"adjacent_runs_differ"})
        \cup (IF (\A j \in 1..Len(rs) : rs[j][1] >= 1 /\ rs[j][1] <= 100000) /\ Decode(rs, ps_[1], reverse) = ps_
              THEN {} ELSE {"decode_reproduces_pairs"})
C03_Holds(ps_, reverse, txt) == C03_Failed(ps_, reverse, txt) = {}
=============================================================================
