------------------------------ MODULE Chainer ------------------------------
(***************************************************************************)
(* SegmentChainer.chain and SequentialityScorer.getScore                   *)
(* (src/alignment/segment_chainer.py): pre-ordering, the O(n^2) dynamic    *)
(* programme, back-tracking; and property C14 as clauses over              *)
(* (segments, observed join matrix, observed chain).                       *)
(*                                                                         *)
(* A segment is [rs, re, qs, qe : coordinates of its first / last pair     *)
(*   (query coordinates as the aligner feeds them: ascending along the     *)
(*    reference on both strands),                                          *)
(*   rv : first pair's query label number > last pair's (strand '-'),      *)
(*   score : Int (scaled), empty : BOOLEAN].                               *)
(* par = [mnum, mden : segmentJoinMultiplier = mnum/mden, variant : 0|1,   *)
(*        scale : every score and join is recorded multiplied by scale].   *)
(* A join value is [inf |-> BOOLEAN, v |-> Int]  (inf = minus infinity).   *)
(***************************************************************************)
EXTENDS Geometry, TLC

CONSTANT ReverseNegatesQueryDistance   \* TRUE = pinned-commit behaviour of getScore (deviation D10)

NegInf == [inf |-> TRUE, v |-> 0]
Fin(v) == [inf |-> FALSE, v |-> v]

Key(s) == s.rs + s.re + s.qs + s.qe

RefDist(p, c) == c.rs - p.re
QryDistPlain(p, c) == c.qs - p.qe
QryDist(p, c) == IF ReverseNegatesQueryDistance /\ c.rv THEN p.qe - c.qs ELSE c.qs - p.qe
RefLen(p, c) == MinV(c.re - c.rs, p.re - p.rs)
QryLen(p, c) == MinV(AbsV(c.qe - c.qs), AbsV(p.qe - p.qs))

\* getScore; exact because par.scale is a multiple of mden * max(...) for the coordinates in use
JoinImpl(par, p, c) ==
    LET rD == RefDist(p, c)
        qD == QryDist(p, c)
        s  == rD + qD
        as == AbsV(rD) + AbsV(qD)
        d  == rD - qD
        num == IF par.variant = 0 THEN s * s + d * d ELSE as * as + d * d
        den == IF par.variant = 0 THEN MaxV(MaxV(AbsV(s), AbsV(d)), 1) ELSE MaxV(as + AbsV(d), 1)
    IN IF MinV(RefLen(p, c) + 2 * rD, QryLen(p, c) + 2 * qD) < 0 THEN NegInf
       ELSE Fin(0 - ((par.mnum * num * (par.scale \div (par.mden * den)))))

-----------------------------------------------------------------------------
(* Implementation-shaped dynamic programme *)
VARIABLES segs, par,
          order,   \* indices of the non-empty segments in pre-order
          i, j,    \* loop indices (1-based into order)
          cum,     \* cumulatedScore (join values; NegInf only transiently)
          prev,    \* previousSegmentIndexes (0 = None)
          best,    \* bestPreviousSegmentIndex
          result,  \* chain as indices into segs
          pc
cvars == <<segs, par, order, i, j, cum, prev, best, result, pc>>

NonEmptyIdx(ss) == LET f[k \in 0..Len(ss)] == IF k = 0 THEN <<>> ELSE IF ss[k].empty THEN f[k-1] ELSE Append(f[k-1], k)
                   IN f[Len(ss)]
EmptyIdx(ss) == LET f[k \in 0..Len(ss)] == IF k = 0 THEN <<>> ELSE IF ss[k].empty THEN Append(f[k-1], k) ELSE f[k-1]
                IN f[Len(ss)]

InitWith(ss, pr) ==
    /\ segs = ss /\ par = pr /\ order = <<>> /\ i = 0 /\ j = 0 /\ cum = <<>> /\ prev = <<>> /\ best = 1
    /\ result = <<>> /\ pc = "preorder"
StartWith(ss, pr) ==
    /\ segs' = ss /\ par' = pr /\ order' = <<>> /\ i' = 0 /\ j' = 0 /\ cum' = <<>> /\ prev' = <<>> /\ best' = 1
    /\ result' = <<>> /\ pc' = "preorder"

KeyOfIdx(k) == Key(segs[k])
PreOrder ==
    /\ pc = "preorder"
    /\ order' = StableSortBy(NonEmptyIdx(segs), KeyOfIdx)
    /\ IF NonEmptyIdx(segs) = <<>>
       THEN /\ result' = EmptyIdx(segs) /\ pc' = "done" /\ UNCHANGED <<i, j, cum, prev>>
       ELSE /\ cum' = [k \in 1..Len(NonEmptyIdx(segs)) |-> 0] /\ prev' = [k \in 1..Len(NonEmptyIdx(segs)) |-> 0]
            /\ i' = 1 /\ j' = 1 /\ pc' = "inner" /\ UNCHANGED result
    /\ UNCHANGED <<segs, par, best>>

\* one iteration of `for j, previousSegment in enumerate(preOrdered[:i])`
Inner ==
    /\ pc = "inner" /\ j < i
    /\ LET jn == JoinImpl(par, segs[order[j]], segs[order[i]])
           better == ~jn.inf /\ cum[j] + jn.v > cum[i]
       IN /\ cum' = IF better THEN [cum EXCEPT ![i] = cum[j] + jn.v] ELSE cum
          /\ prev' = IF better THEN [prev EXCEPT ![i] = j] ELSE prev
    /\ j' = j + 1
    /\ UNCHANGED <<segs, par, order, i, best, result, pc>>

\* `cumulatedScore[i] += segmentScore; if it beats the best so far (strictly) remember i`
CloseI ==
    /\ pc = "inner" /\ j = i
    /\ LET ci == cum[i] + segs[order[i]].score IN
       /\ cum' = [cum EXCEPT ![i] = ci]
       /\ best' = IF ci > (IF best = i THEN ci ELSE cum[best]) THEN i ELSE best
    /\ IF i < Len(order) THEN i' = i + 1 /\ j' = 1 /\ pc' = "inner" ELSE i' = i /\ j' = j /\ pc' = "backtrack"
    /\ UNCHANGED <<segs, par, order, prev, result>>

RECURSIVE BackChain(_, _)
BackChain(pv, k) == IF k = 0 THEN <<>> ELSE Append(BackChain(pv, pv[k]), k)
BackTrack ==
    /\ pc = "backtrack"
    /\ result' = [k \in 1..Len(BackChain(prev, best)) |-> order[BackChain(prev, best)[k]]] \o EmptyIdx(segs)
    /\ pc' = "done"
    /\ UNCHANGED <<segs, par, order, i, j, cum, prev, best>>

ChainNext == PreOrder \/ Inner \/ CloseI \/ BackTrack
Done == pc = "done"

\* the model's own join matrix, in the shape of the observed one
JoinMatrixImpl(ss, pr) ==
    [a \in 1..Len(ss) |-> [b \in 1..Len(ss) |->
        IF ss[a].empty \/ ss[b].empty \/ a = b THEN Fin(0) ELSE JoinImpl(pr, ss[a], ss[b])]]

-----------------------------------------------------------------------------
(* C14 over (segments, observed join matrix J, observed chain res as indices) *)
RECURSIVE SeqPerms(_)
SeqPerms(S) == IF S = {} THEN {<<>>} ELSE UNION {{<<x>> \o p : p \in SeqPerms(S \ {x})} : x \in S}

\* all linear orders of index set T that are non-decreasing in the pre-order key
KeyOrders(ss, T) ==
    LET keys == {Key(ss[k]) : k \in T}
        RECURSIVE Build(_)
        Build(ks) == IF ks = {} THEN {<<>>}
                     ELSE LET m == CHOOSE x \in ks : \A y \in ks : x <= y
                              grp == {k \in T : Key(ss[k]) = m}
                          IN UNION {{p \o rest : rest \in Build(ks \ {m})} : p \in SeqPerms(grp)}
    IN Build(keys)

\* total of a sequence of indices: [inf, v]
Total(ss, J, o) ==
    LET f[k \in 0..Len(o)] ==
          IF k = 0 THEN Fin(0)
          ELSE IF f[k-1].inf THEN NegInf
          ELSE IF k = 1 THEN Fin(ss[o[1]].score)
          ELSE IF J[o[k-1]][o[k]].inf THEN NegInf
          ELSE Fin(f[k-1].v + J[o[k-1]][o[k]].v + ss[o[k]].score)
    IN f[Len(o)]

Geq(a, b) == b.inf \/ (~a.inf /\ a.v >= b.v)

TieGroupsSmall(ss, T) ==   \* bound on the enumeration of tie-consistent orders (DESIGN.md 4/C14)
    \A m \in {Key(ss[k]) : k \in T} : Cardinality({k \in T : Key(ss[k]) = m}) <= 4

C14_Failed(ss, J, res) ==
    LET n     == Len(ss)
        NE    == {k \in 1..n : ~ss[k].empty}
        EM    == {k \in 1..n : ss[k].empty}
        m     == Cardinality({k \in 1..Len(res) : res[k] \in NE})
        ne    == SubSeq(res, 1, m)                 \* claimed non-empty part
        tail  == SubSeq(res, m + 1, Len(res))
        tot   == Total(ss, J, ne)
    IN IF ~(\A k \in 1..Len(res) : res[k] \in 1..n) THEN {"members_are_input_segments"}    \* (the other clauses index ss)
       ELSE
        (IF (\A k \in 1..Len(ne) : ne[k] \in NE) /\ (\A k \in 1..Len(tail) : tail[k] \in EM)
           THEN {} ELSE {"nonempty_part_first_then_empties"})
     \cup (IF \A a, b \in 1..Len(ne) : a # b => ne[a] # ne[b] THEN {} ELSE {"each_segment_at_most_once"})
     \cup (IF SeqToSet(tail) = EM /\ Len(tail) = Cardinality(EM) THEN {} ELSE {"empty_segments_passed_through"})
     \cup (IF NE # {} /\ ne = <<>> THEN {"nonempty_input_gives_nonempty_chain"} ELSE {})
     \cup (IF \A k \in 1..(Len(ne)-1) : Key(ss[ne[k]]) <= Key(ss[ne[k+1]]) THEN {} ELSE {"ordered_along_diagonal"})
     \cup (IF \A k \in 1..(Len(ne)-1) : ~J[ne[k]][ne[k+1]].inf THEN {} ELSE {"no_minus_infinity_join"})
     \cup (IF \A a, b \in NE : a # b => (J[a][b].inf \/ J[a][b].v <= 0) THEN {} ELSE {"join_never_positive"})
     \cup (IF \A a, b \in NE : (a # b /\ RefDist(ss[a], ss[b]) = 0 /\ QryDistPlain(ss[a], ss[b]) = 0)
                                 => (~J[a][b].inf /\ J[a][b].v = 0)
           THEN {} ELSE {"contiguous_join_is_zero"})
     \cup (IF \A k \in 1..(Len(ne)-1) :
                 LET p == ss[ne[k]]  c == ss[ne[k+1]] IN
                 /\ RefLen(p, c) + 2 * RefDist(p, c) >= 0
                 /\ QryLen(p, c) + 2 * QryDistPlain(p, c) >= 0
           THEN {} ELSE {"no_overlap_beyond_half_of_shorter"})
     \cup (IF tot.inf THEN {}   \* already reported by no_minus_infinity_join
           ELSE IF \A T \in (SUBSET NE) \ {{}} :
                      ~TieGroupsSmall(ss, T) \/ \E o \in KeyOrders(ss, T) : Geq(tot, Total(ss, J, o))
           THEN {} ELSE {"total_is_maximal"})
C14_Holds(ss, J, res) == C14_Failed(ss, J, res) = {}
=============================================================================
