-------------------------------- MODULE Finder --------------------------------
(***************************************************************************)
(* sv/molecule_indels.py for ONE joined record: find_conflict_place (where *)
(* the joined alignment leaves the part it starts with) and                *)
(* look_for_indels_in_breakage (the call at that junction).  One action    *)
(* per step of the code:                                                   *)
(*   PickPart      first = original if the joined record starts with the   *)
(*                 original's first pair, else rest                        *)
(*   Scan          for index, pair in enumerate(first): compare with the   *)
(*                 joined record's pair at that index                      *)
(*   Abort_JoinedShorter   the joined record has no pair at that index     *)
(*                         (IndexError)                                    *)
(*   Junction      the last pair the joined record shares with the part    *)
(*                 (the repair d7cb683), or the part's last pair when they *)
(*                 never differ                                            *)
(*   Abort_NoNextPair      the junction is the joined record's last pair   *)
(*                         (IndexError; observed when the join dropped the *)
(*                         whole second part - DESIGN 10.9)                *)
(*   Call / NoCall the gap difference against the two thresholds           *)
(* J, O, R : sequences of <<reference label, query label>>; refx, qryx :   *)
(* coordinates by label number; Lo < |diff| < Hi is reported.              *)
(* Property (C20, second sentence): a call is self-consistent and its      *)
(* coordinates are those of two CONSECUTIVE pairs of the joined record.    *)
(***************************************************************************)
EXTENDS Integers, Sequences, FiniteSets, TLC

CONSTANTS Blur, DropsOtherChromosome
I == INSTANCE Indels WITH calls <- 0, k <- 0, clusters <- 0, pc <- 0

VARIABLES fin,      \* [J, O, R, refx, qryx, lo, hi, qid, chr]
          part,     \* the part the scan walks along
          idx,      \* 1-based scan index
          junction, \* 1-based index into J, 0 = not found yet
          call,     \* <<>> or <<the call>>
          fpc
fvars == <<fin, part, idx, junction, call, fpc>>

FInitWith(in) == fin = in /\ part = <<>> /\ idx = 1 /\ junction = 0 /\ call = <<>> /\ fpc = "pick"

PickPart == /\ fpc = "pick"
            /\ part' = (IF fin.O # <<>> /\ fin.J[1] = fin.O[1] THEN fin.O ELSE fin.R)
            /\ fpc' = "scan" /\ UNCHANGED <<fin, idx, junction, call>>
Abort_JoinedShorter ==
    /\ fpc = "scan" /\ idx <= Len(part) /\ idx > Len(fin.J)
    /\ fpc' = "aborted" /\ UNCHANGED <<fin, part, idx, junction, call>>
ScanSame == /\ fpc = "scan" /\ idx <= Len(part) /\ idx <= Len(fin.J) /\ fin.J[idx] = part[idx]
            /\ idx' = idx + 1 /\ UNCHANGED <<fin, part, junction, call, fpc>>
\* junction = max(index - 1, 0) in 0-based terms
JunctionAtDifference ==
    /\ fpc = "scan" /\ idx <= Len(part) /\ idx <= Len(fin.J) /\ fin.J[idx] # part[idx]
    /\ junction' = (IF idx - 1 >= 1 THEN idx - 1 ELSE 1)
    /\ fpc' = "next" /\ UNCHANGED <<fin, part, idx, call>>
\* the loop ended without a difference: [index, pair] of the last iteration
JunctionAtEnd ==
    /\ fpc = "scan" /\ idx > Len(part) /\ part # <<>>
    /\ junction' = Len(part) /\ fpc' = "next" /\ UNCHANGED <<fin, part, idx, call>>
Abort_EmptyPart ==          \* `index` / `pair` unbound: the part has no pair at all (cannot come from COMA's files)
    /\ fpc = "scan" /\ part = <<>>
    /\ fpc' = "aborted" /\ UNCHANGED <<fin, part, idx, junction, call>>
Abort_NoNextPair ==
    /\ fpc = "next" /\ junction + 1 > Len(fin.J)
    /\ fpc' = "aborted" /\ UNCHANGED <<fin, part, idx, junction, call>>
Diff == LET a == fin.J[junction]  b == fin.J[junction + 1]
        IN I!AbsV(fin.refx[a[1]] - fin.refx[b[1]]) - I!AbsV(fin.qryx[a[2]] - fin.qryx[b[2]])
Call == /\ fpc = "next" /\ junction + 1 <= Len(fin.J) /\ I!AbsV(Diff) > fin.lo /\ I!AbsV(Diff) < fin.hi
        /\ LET a == fin.J[junction]  b == fin.J[junction + 1]
           IN call' = <<[type |-> IF Diff < -fin.lo THEN "insertion" ELSE "deletion", chr |-> fin.chr,
                        rs |-> fin.refx[a[1]], re |-> fin.refx[b[1]], qid |-> fin.qid,
                        qs |-> fin.qryx[a[2]], qe |-> fin.qryx[b[2]], len |-> Diff]>>
        /\ fpc' = "done" /\ UNCHANGED <<fin, part, idx, junction>>
NoCall == /\ fpc = "next" /\ junction + 1 <= Len(fin.J) /\ ~(I!AbsV(Diff) > fin.lo /\ I!AbsV(Diff) < fin.hi)
          /\ fpc' = "done" /\ UNCHANGED <<fin, part, idx, junction, call>>
FinderNext == PickPart \/ Abort_JoinedShorter \/ ScanSame \/ JunctionAtDifference \/ JunctionAtEnd \/ Abort_EmptyPart
              \/ Abort_NoNextPair \/ Call \/ NoCall

Inv_C20_Call == fpc = "done" /\ call # <<>> =>
    I!C20_Call_Failed(call[1]) \cup I!C20_Flank_Failed(call[1], fin.J, fin.refx, fin.qryx) = {}
\* the junction is a pair the joined record shares with the part it starts with (what d7cb683 repaired)
Inv_JunctionShared == fpc \in {"next", "done"} => junction >= 1 /\ (junction < idx \/ idx = 1)
\* named observation (expected to FAIL): the tool raises when the joined record ends at the junction
Inv_FinderNoAbort == fpc # "aborted"
=============================================================================
