CONSTANTS
  MaxCalls = 4
  Chrs = {1, 2}
  Coords = {0, 1, 2, 3, 4, 5}
  Blur = 2
  DropsOtherChromosome = FALSE
INIT Init
NEXT Next
INVARIANT Inv_C20
CHECK_DEADLOCK FALSE
