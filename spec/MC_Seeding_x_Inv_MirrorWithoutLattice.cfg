CONSTANTS
  RefMax = 7
  RefMaxLabels = 5
  QryMax = 5
  ResSet = {1, 2}
  BlurSet = {0, 1}
  MdFactors = {1, 2, 3}
  PCounts = {1, 2}
  TailSet = {0, 2}
INIT Init
NEXT Next
CHECK_DEADLOCK FALSE
INVARIANT Inv_MirrorWithoutLattice
