------------------------------ MODULE Seeding ------------------------------
(***************************************************************************)
(* OpticalMap.getInitialAlignment (src/correlation/optical_map.py:58-95)   *)
(* with what it calls: whole-map vectorisation + blur (vectorise.py),      *)
(* the 'valid' cross-correlation of the two bit vectors, its normalisation,*)
(* scipy.signal.find_peaks(height = 0.75 max, distance = md / resolution)  *)
(* and CorrelationResult.createPeaks (the peaksCount highest).  Rounds 0-8 *)
(* treated this stage as an environment action with a contract; here it is *)
(* a state machine in EXACT arithmetic: a correlation sample is the        *)
(* rational  2 C(k) / (W(k) + S)  with                                     *)
(*    C(k) = # bins set in both the query vector and the reference window, *)
(*    W(k) = # bins set in the reference window, S = # bins set in the     *)
(*    query vector                                                         *)
(* (scipy computes the same numbers through an FFT in floating point: the  *)
(* two agree to ~1e-15 except that exact ties may be broken either way).   *)
(*                                                                         *)
(* One action per stage of the code:                                       *)
(*   TooLong / Sequences / SeqTooLong / Correlate / LocalMaxima /          *)
(*   HeightFilter / Abort_DistanceBelowOne / DistStep* / DistDone /        *)
(*   KeepTop                                                               *)
(* inp = [ref, qry : [len, pos], rev, res, blur, md, pcount]               *)
(*   ref.pos ascending, >= 0;  qry trimmed (first label at 0)              *)
(***************************************************************************)
EXTENDS Integers, Sequences, FiniteSets, TLC, SequencesExt, FiniteSetsExt

V == INSTANCE Vectorise WITH vin <- 0, ws <- 0, k <- 0, out <- 0, pc <- 0

LastOf(s) == s[Len(s)]
\* vectorisePositions(positions, resolution, 0, None): one bit per bin up to the bin of the last label
WholeVec(pos, res) ==
    [i \in 1..(LastOf(pos) \div res + 1) |-> IF \E j \in 1..Len(pos) : pos[j] \div res = i - 1 THEN 1 ELSE 0]
BitSeq(m, res, b, rev) ==
    LET s == V!BlurFast(WholeVec(m.pos, res), b) IN IF rev THEN Reverse(s) ELSE s

Ones(s) == Cardinality({i \in 1..Len(s) : s[i] = 1})
\* correlate(reference, query, mode='valid') normalised by (correlate(reference, ones) + sum(query)) / 2
Dice(rs, qs) ==
    LET m == Len(qs)
        QS == {i \in 1..m : qs[i] = 1}
        RS == {i \in 1..Len(rs) : rs[i] = 1}
        S == Cardinality(QS)
    IN [kk \in 1..(Len(rs) - m + 1) |->
          [n |-> 2 * Cardinality({i \in QS : rs[kk + i - 1] = 1}),
           d |-> Cardinality({i \in RS : i >= kk /\ i <= kk + m - 1}) + S]]

\* exact comparison of two samples (denominators are positive: S >= 1)
Lt(a, b) == a.n * b.d < b.n * a.d
Le(a, b) == a.n * b.d <= b.n * a.d
Eq(a, b) == a.n * b.d = b.n * a.d
MaxSample(xx) == FoldLeft(LAMBDA a, b : IF Lt(a, b) THEN b ELSE a, xx[1], xx)
\* height >= 0.75 * max; a height of EXACTLY three quarters of the maximum passes or fails with the rounding of
\* 0.75 * max in floating point: both outcomes are allowed
ReachesThreeQuarters(a, mx) == 4 * a.n * mx.d >= 3 * mx.n * a.d
AboveThreeQuarters(a, mx) == 4 * a.n * mx.d > 3 * mx.n * a.d

\* scipy _local_maxima_1d: a run l..r of equal samples strictly inside the array with lower samples on both sides;
\* the peak is reported at the middle of the run, (l + r) // 2
\* In floating point the members of an exact plateau differ in the last bits, so the code reports SOME member of the
\* run (named deviation from the mid-point rule): MaximalRuns gives the runs, a choice picks one index in each.
MaximalRuns(xx) ==
    LET K == Len(xx)
        RunEnd(l) == CHOOSE r \in l..K : (\A i \in l..r : Eq(xx[i], xx[l])) /\ (r = K \/ ~Eq(xx[r + 1], xx[l]))
    IN {<<l, RunEnd(l)>> : l \in {ll \in 2..(K - 1) :
            /\ Lt(xx[ll - 1], xx[ll]) /\ RunEnd(ll) <= K - 1 /\ Lt(xx[RunEnd(ll) + 1], xx[RunEnd(ll)])}}
LocalMaximaOf(xx) == {(run[1] + run[2]) \div 2 : run \in MaximalRuns(xx)}

CeilDiv(a, b) == (a + b - 1) \div b
\* toRelativeGenomicPositions(index, resolution, 0), index 0-based
BinCentre(i0, res) == i0 * res + ((res + 1) \div 2 - 1)

-----------------------------------------------------------------------------
VARIABLES inp, rs, qs, x, cand, done, peaks, empty, pc
svars == <<inp, rs, qs, x, cand, done, peaks, empty, pc>>

StartWith(in) ==
    /\ inp = in /\ rs = <<>> /\ qs = <<>> /\ x = <<>> /\ cand = {} /\ done = {} /\ peaks = {} /\ empty = FALSE
    /\ pc = "start"

\* if self.length > reference.length: EmptyInitialAlignment
TooLong ==
    /\ pc = "start" /\ inp.qry.len > inp.ref.len
    /\ empty' = TRUE /\ pc' = "done" /\ UNCHANGED <<inp, rs, qs, x, cand, done, peaks>>
Sequences ==
    /\ pc = "start" /\ inp.qry.len <= inp.ref.len
    /\ qs' = BitSeq(inp.qry, inp.res, inp.blur, inp.rev)
    /\ rs' = BitSeq(inp.ref, inp.res, inp.blur, FALSE)
    /\ pc' = "seq" /\ UNCHANGED <<inp, x, cand, done, peaks, empty>>
\* the labelled part of the reference is shorter than the query (490da01, D11)
SeqTooLong ==
    /\ pc = "seq" /\ Len(qs) > Len(rs)
    /\ empty' = TRUE /\ pc' = "done" /\ UNCHANGED <<inp, rs, qs, x, cand, done, peaks>>
Correlate ==
    /\ pc = "seq" /\ Len(qs) <= Len(rs)
    /\ x' = Dice(rs, qs) /\ pc' = "corr" /\ UNCHANGED <<inp, rs, qs, cand, done, peaks, empty>>
\* strict maxima are always reported.  Where neighbouring samples are exactly equal the FFT leaves differences in the
\* last bits, so the code may report ANY sample of a flat stretch that is not below its neighbours ("noise peaks",
\* named deviation), and it reports at least one member of every plateau that is higher than both sides.
StrictMaxima(xx) == {i \in 2..(Len(xx) - 1) : Lt(xx[i - 1], xx[i]) /\ Lt(xx[i + 1], xx[i])}
FlatMaxima(xx) == {i \in 2..(Len(xx) - 1) : /\ Le(xx[i - 1], xx[i]) /\ Le(xx[i + 1], xx[i])
                                             /\ (Eq(xx[i - 1], xx[i]) \/ Eq(xx[i + 1], xx[i]))}
Plateaus(xx) == {run \in MaximalRuns(xx) : run[1] < run[2]}
LegalNoise(xx, N) == /\ N \subseteq FlatMaxima(xx)
                     /\ \A run \in Plateaus(xx) : \E i \in N : i >= run[1] /\ i <= run[2]
LocalMaxima ==
    /\ pc = "corr"
    /\ \E N \in SUBSET FlatMaxima(x) :
          /\ LegalNoise(x, N) /\ Cardinality(N) <= Cardinality(Plateaus(x)) + 1
          /\ cand' = StrictMaxima(x) \cup N
    /\ pc' = "height" /\ UNCHANGED <<inp, rs, qs, x, done, peaks, empty>>
HeightFilter ==
    /\ pc = "height"
    /\ \E keepTies \in SUBSET {i \in cand : ReachesThreeQuarters(x[i], MaxSample(x)) /\ ~AboveThreeQuarters(x[i], MaxSample(x))} :
          cand' = {i \in cand : AboveThreeQuarters(x[i], MaxSample(x))} \cup keepTies
    /\ pc' = "dist" /\ UNCHANGED <<inp, rs, qs, x, done, peaks, empty>>
\* find_peaks raises ValueError when distance < 1, i.e. minPeakDistance < resolution (named abort; outside the
\* domain of the invariants: the documented defaults are 20000 / 1400)
Abort_DistanceBelowOne ==
    /\ pc = "dist" /\ inp.md < inp.res
    /\ pc' = "aborted" /\ UNCHANGED <<inp, rs, qs, x, cand, done, peaks, empty>>
\* _select_by_peak_distance: peaks visited from the highest down; a visited peak that is still kept removes every
\* kept neighbour closer than ceil(distance).  Equal heights: scipy's argsort decides; here any order.
DistStep ==
    /\ pc = "dist" /\ inp.md >= inp.res
    /\ \E j \in cand \ done :
          /\ \A i \in cand \ done : Le(x[i], x[j])
          /\ done' = done \cup {j}
          /\ cand' = {i \in cand : i = j \/ (i - j >= CeilDiv(inp.md, inp.res)) \/ (j - i >= CeilDiv(inp.md, inp.res))}
    /\ UNCHANGED <<inp, rs, qs, x, peaks, empty, pc>>
DistDone ==
    /\ pc = "dist" /\ inp.md >= inp.res /\ cand \subseteq done
    /\ pc' = "keep" /\ UNCHANGED <<inp, rs, qs, x, cand, done, peaks, empty>>
\* createPeaks: argpartition(-heights, peaksCount)[:peaksCount] - some set of peaksCount highest
KeepCount == IF inp.pcount < Cardinality(cand) THEN inp.pcount ELSE Cardinality(cand)
LegalKeep(T) == /\ T \subseteq cand /\ Cardinality(T) = KeepCount
                /\ \A i \in T : \A j \in cand \ T : Le(x[j], x[i])
\* every candidate with fewer than KeepCount candidates strictly above it or level with it is in; the rest of the
\* places go to candidates level with the cut
SureKeep == {i \in cand : Cardinality({j \in cand : j # i /\ Le(x[i], x[j])}) < KeepCount}
CutTies == {i \in cand \ SureKeep : Cardinality({j \in cand : Lt(x[i], x[j])}) < KeepCount}
KeepTop ==
    /\ pc = "keep"
    /\ \E U \in kSubset(KeepCount - Cardinality(SureKeep), CutTies) : peaks' = SureKeep \cup U
    /\ pc' = "done" /\ UNCHANGED <<inp, rs, qs, x, cand, done, empty>>
SeedNext == TooLong \/ Sequences \/ SeqTooLong \/ Correlate \/ LocalMaxima \/ HeightFilter
            \/ Abort_DistanceBelowOne \/ DistStep \/ DistDone \/ KeepTop

-----------------------------------------------------------------------------
(* What the later stages (Worker, AlignCore, Planted) rely on: the seeding contract *)
IsLocalMaxNonStrict(xx, i) == i > 1 /\ i < Len(xx) /\ Le(xx[i-1], xx[i]) /\ Le(xx[i+1], xx[i])
Contract_Failed(in, xx, P) ==
       (IF Cardinality(P) <= in.pcount THEN {} ELSE {"more_than_peaksCount_seeds"})
  \cup (IF \A i \in P : i \in 1..Len(xx) /\ IsLocalMaxNonStrict(xx, i) THEN {} ELSE {"seed_is_not_a_local_maximum"})
  \cup (IF \A i \in P : i \in 1..Len(xx) => ReachesThreeQuarters(xx[i], MaxSample(xx)) THEN {}
        ELSE {"seed_below_three_quarters_of_the_maximum"})
  \cup (IF \A i, j \in P : i < j => j - i >= CeilDiv(in.md, in.res) THEN {} ELSE {"seeds_closer_than_minPeakDistance"})
\* completeness: a strict, isolated local maximum that reaches the threshold is a seed unless a seed at least as high
\* lies closer than the distance, or peaksCount seeds at least as high were kept
StrictMax(xx, i) == i > 1 /\ i < Len(xx) /\ Lt(xx[i-1], xx[i]) /\ Lt(xx[i+1], xx[i])
Complete_Failed(in, xx, P) ==
    IF \A i \in 2..(Len(xx) - 1) :
          (StrictMax(xx, i) /\ AboveThreeQuarters(xx[i], MaxSample(xx)) /\ i \notin P) =>
             \/ \E j \in P : j \in 1..Len(xx) /\ Le(xx[i], xx[j]) /\ j - i < CeilDiv(in.md, in.res) /\ i - j < CeilDiv(in.md, in.res)
             \/ (Cardinality(P) >= in.pcount /\ \A j \in P : j \in 1..Len(xx) /\ Le(xx[i], xx[j]))
             \* shadowed by a peak that was itself removed by a higher one (chains): a HIGHER unreported maximum nearby
             \/ \E j \in 2..(Len(xx) - 1) : j # i /\ Le(xx[i], xx[j]) /\ j - i < CeilDiv(in.md, in.res) /\ i - j < CeilDiv(in.md, in.res)
                                            /\ IsLocalMaxNonStrict(xx, j)
    THEN {} ELSE {"strict_maximum_above_threshold_neither_seeded_nor_shadowed"}

Inv_NoAbort == pc = "aborted" => inp.md < inp.res
Inv_Contract == pc = "done" /\ ~empty => Contract_Failed(inp, x, peaks) = {} /\ Complete_Failed(inp, x, peaks) = {}
Inv_Keep == pc = "done" /\ ~empty => LegalKeep(peaks)
Inv_Empty == pc = "done" /\ empty => peaks = {}
\* the samples are Dice coefficients: between 0 and 1, and 1 exactly where window and query have the same bins set
Inv_Dice == pc \notin {"start", "seq"} /\ ~empty =>
    \A kk \in 1..Len(x) : /\ x[kk].n >= 0 /\ x[kk].n <= x[kk].d
                          /\ (x[kk].n = x[kk].d <=> \A i \in 1..Len(qs) : qs[i] = rs[kk + i - 1])
\* a global maximum that is a strict interior maximum is always a seed (it has the highest priority and peaksCount >= 1)
Inv_BestIsSeeded == pc = "done" /\ ~empty /\ inp.pcount >= 1 =>
    \A i \in 2..(Len(x) - 1) :
        (StrictMax(x, i) /\ \A j \in 1..Len(x) : j # i => Lt(x[j], x[i])) => i \in peaks

\* an exact locus (sample 1: window and query identical) that is a strict interior maximum guarantees that some seed
\* is an exact locus - the seeding half of C06
IsOne(a) == a.n = a.d
Inv_ExactLocusSeeded == pc = "done" /\ ~empty /\ inp.pcount >= 1 =>
    ((\E i \in 2..(Len(x) - 1) : IsOne(x[i]) /\ ~IsOne(x[i-1]) /\ ~IsOne(x[i+1])) => \E p \in peaks : IsOne(x[p]))

-----------------------------------------------------------------------------
(* Lemmas behind C06 and C11, stated on pure operators so that they can be evaluated on any input *)
MirrorMap(m) == [len |-> m.len, pos |-> [i \in 1..Len(m.pos) |-> (m.len - 1) - m.pos[Len(m.pos) + 1 - i]]]
OnLattice(m, res) == \A i \in 1..Len(m.pos) : m.pos[i] % res = 0
\* C11: for a trimmed query on the resolution lattice the reverse-strand vector is the vector of the mirror image
MirrorLemma(q, res, b) == OnLattice(q, res) /\ q.len = LastOf(q.pos) + 1 =>
                              BitSeq(q, res, b, TRUE) = BitSeq(MirrorMap(q), res, b, FALSE)
\* C06: a query that copies reference labels a..b (all on the lattice) has exactly the bins of the reference window at
\* the true offset set (what the labels next to the window blur into it is covered by the blur of the window's own
\* end labels): the sample there is 2S / (S + S) = 1, the largest value a sample can take
TrueOffset(ref, a, res) == ref.pos[a] \div res + 1          \* 1-based sample index
PlantedLemma(ref, a, b, res, bl) ==
    LET q == [len |-> ref.pos[b] - ref.pos[a] + 1, pos |-> [i \in 1..(b - a + 1) |-> ref.pos[a + i - 1] - ref.pos[a]]]
        xs == Dice(BitSeq(ref, res, bl, FALSE), BitSeq(q, res, bl, FALSE))
        t == TrueOffset(ref, a, res)
    IN OnLattice(ref, res) =>
          /\ xs[t].n = 2 * Ones(BitSeq(q, res, bl, FALSE))
          /\ xs[t].d = xs[t].n
          /\ \A kk \in 1..Len(xs) : Le(xs[kk], xs[t])

-----------------------------------------------------------------------------
(***************************************************************************)
(* InitialAlignment.refine (optical_map.py:197-217): the secondary         *)
(* correlation around one selected seed.  Same variables, own pc labels:   *)
(*   RSequences / RWindowShort / RCorrelate / RLocalMaxima / RHeight /     *)
(*   RProminence / KeepTop (the ten highest)                               *)
(* inp additionally has  peak (bp position of the seed), margin, pt        *)
(* (peakHeightThreshold, an integer here) and pcount = 10 (the constant    *)
(* the code passes).  The samples are RAW counts C(k) of bins set in both  *)
(* the query vector and the window of the reference vector - integers,     *)
(* kept as [n |-> C, d |-> 1] so that the comparison operators are shared. *)
(* The reference window is cut by vectorisePositions(start, end) (VecFun). *)
(***************************************************************************)
WinSeq(m, res, b, start, end) == V!BlurFast(V!VecFun([pos |-> m.pos, res |-> res, start |-> start, end |-> end]), b)
Counts(rsq, qsq) ==
    LET QS == {i \in 1..Len(qsq) : qsq[i] = 1}
    IN [kk \in 1..(Len(rsq) - Len(qsq) + 1) |-> [n |-> Cardinality({i \in QS : rsq[kk + i - 1] = 1}), d |-> 1]]
RefStart == inp.peak - inp.margin
RefEnd == inp.peak + inp.qry.len + inp.margin

\* scipy _peak_prominences (wlen = None): walk left and right while the samples do not exceed the peak, take the
\* lowest sample on each side; prominence = peak - the higher of the two
LeftStop(xx, i) == CHOOSE a \in 1..i : (\A j \in a..i : xx[j].n <= xx[i].n) /\ (a = 1 \/ xx[a - 1].n > xx[i].n)
RightStop(xx, i) == CHOOSE b \in i..Len(xx) : (\A j \in i..b : xx[j].n <= xx[i].n) /\ (b = Len(xx) \/ xx[b + 1].n > xx[i].n)
MinOver(xx, a, b) == CHOOSE v \in {xx[j].n : j \in a..b} : \A j \in a..b : v <= xx[j].n
Prominence(xx, i) ==
    LET lm == MinOver(xx, LeftStop(xx, i), i)
        rm == MinOver(xx, i, RightStop(xx, i))
    IN xx[i].n - (IF lm > rm THEN lm ELSE rm)

RStartWith(in) ==
    /\ inp = in /\ rs = <<>> /\ qs = <<>> /\ x = <<>> /\ cand = {} /\ done = {} /\ peaks = {} /\ empty = FALSE
    /\ pc = "rstart"
RSequences ==
    /\ pc = "rstart"
    /\ qs' = BitSeq(inp.qry, inp.res, inp.blur, inp.rev)
    /\ rs' = WinSeq(inp.ref, inp.res, inp.blur, RefStart, RefEnd)
    /\ pc' = "rseq" /\ UNCHANGED <<inp, x, cand, done, peaks, empty>>
\* a window shorter than the query vector (a seed next to the end of the labelled part): scipy then correlates with the
\* arguments exchanged, an empty window raises - not modelled, the run of the machine ends here (named situation)
RWindowShort ==
    /\ pc = "rseq" /\ Len(rs) < Len(qs)
    /\ pc' = "outside" /\ UNCHANGED <<inp, rs, qs, x, cand, done, peaks, empty>>
RCorrelate ==
    /\ pc = "rseq" /\ Len(rs) >= Len(qs)
    /\ x' = Counts(rs, qs) /\ pc' = "rcorr" /\ UNCHANGED <<inp, rs, qs, cand, done, peaks, empty>>
RLocalMaxima ==
    /\ pc = "rcorr"
    /\ \E N \in SUBSET FlatMaxima(x) :
          /\ LegalNoise(x, N) /\ Cardinality(N) <= Cardinality(Plateaus(x)) + 1
          /\ cand' = StrictMaxima(x) \cup N
    /\ pc' = "rheight" /\ UNCHANGED <<inp, rs, qs, x, done, peaks, empty>>
\* height >= peakHeightThreshold; the FFT returns the counts with an error in the last bits, so a count that EQUALS the
\* threshold passes or fails
RHeight ==
    /\ pc = "rheight"
    /\ \E keepTies \in SUBSET {i \in cand : x[i].n = inp.pt} : cand' = {i \in cand : x[i].n > inp.pt} \cup keepTies
    /\ pc' = "rprom" /\ UNCHANGED <<inp, rs, qs, x, done, peaks, empty>>
\* prominence >= 0.05 * max(correlation), i.e. 20 * prominence >= max; equality either way
RProminence ==
    /\ pc = "rprom"
    /\ LET mx == MaxSample(x).n IN
         \E keepTies \in SUBSET {i \in cand : 20 * Prominence(x, i) = mx} :
             cand' = {i \in cand : 20 * Prominence(x, i) > mx} \cup keepTies
    /\ pc' = "keep" /\ UNCHANGED <<inp, rs, qs, x, done, peaks, empty>>
RefineNext == RSequences \/ RWindowShort \/ RCorrelate \/ RLocalMaxima \/ RHeight \/ RProminence \/ KeepTop
\* where a refined peak lies on the reference: the centre of its bin, counted from the start of the window
RefinedPosition(i) == BinCentre(i - 1, inp.res) + RefStart

\* what AlignCore relies on, and the refinement half of C06
RContract_Failed(in, xx, P) ==
       (IF Cardinality(P) <= 10 THEN {} ELSE {"more_than_ten_refined_peaks"})
  \cup (IF \A i \in P : i \in 1..Len(xx) /\ IsLocalMaxNonStrict(xx, i) THEN {} ELSE {"refined_peak_is_not_a_local_maximum"})
  \cup (IF \A i \in P : i \in 1..Len(xx) => xx[i].n >= in.pt THEN {} ELSE {"refined_peak_below_the_height_threshold"})
  \cup (IF \A i \in P : i \in 1..Len(xx) => 20 * Prominence(xx, i) >= MaxSample(xx).n THEN {}
        ELSE {"refined_peak_below_the_prominence_threshold"})
Inv_RContract == pc = "done" /\ "peak" \in DOMAIN inp => RContract_Failed(inp, x, peaks) = {}
\* no sample exceeds the number of bins set in the query vector, and it is reached exactly where every set bin of the
\* query is set in the window (an exact locus)
Inv_RCount == pc \in {"rcorr", "rheight", "rprom"} =>
    \A kk \in 1..Len(x) : x[kk].n <= Ones(qs) /\ (x[kk].n = Ones(qs) <=> \A i \in 1..Len(qs) : qs[i] = 1 => rs[kk + i - 1] = 1)
\* C06, refinement half: a unique exact locus that is a strict interior maximum and reaches the threshold is always a
\* refined peak (it is the highest sample: it survives the cut to ten; its prominence is at least 1 >= max / 20 when max <= 20 ...
\* in general the prominence of the global strict maximum is max - (the higher of the two side minima) )
Inv_RExactLocus == pc = "done" /\ "peak" \in DOMAIN inp =>
    \A i \in 2..(Len(x) - 1) :
        (/\ x[i].n = Ones(qs) /\ x[i].n > inp.pt /\ \A j \in 1..Len(x) : j # i => x[j].n < x[i].n
         /\ 20 * Prominence(x, i) > x[i].n) => i \in peaks
=============================================================================
