---------------------------- MODULE Trace_Wiring ----------------------------
(* (C) component configurations read off the objects the REAL Args.parse + WorkflowCoordinatorFactory.create built:  *)
(*  {"cli": {"sp": 7, ...}, "obs": {"scorer_perfectMatchScore": 7, ...}}  (floats scaled by 1000)                    *)
EXTENDS Wiring, Json, IOUtils
Traces == ndJsonDeserialize(IOEnv.TRACE_FILE)
VARIABLE t
Init == \E k \in 1..Len(Traces) : t = k /\ InitWith(Traces[k].cli)
Verdict ==
    LET obs == Traces[t].obs
        failed == C04_Wiring_Failed(cli, obs)
        drift  == DefaultDrift(cli, obs)
                  \cup {"field_not_observable_" \o f : f \in {g \in Fields : g \notin DOMAIN obs \/ obs[g] = Unobserved}}
                  \cup (IF \A f \in Fields : f \in DOMAIN obs /\ obs[f] # Unobserved => obs[f] = comp[f] THEN {}
                        ELSE {"configuration_differs_from_spec"})
    IN IF failed \cup drift = {} THEN TRUE ELSE PrintT(ToString(<<"V", t, failed, drift>>))
Report == Done /\ Verdict /\ pc' = "reported" /\ UNCHANGED <<cli, args, comp, t>>
Terminated == pc = "reported" /\ UNCHANGED <<wvars, t>>
Next == (WNext /\ UNCHANGED t) \/ Report \/ Terminated
=============================================================================
