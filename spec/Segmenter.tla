----------------------------- MODULE Segmenter -----------------------------
(***************************************************************************)
(* The segment builder of COMA (src/alignment/segments_factory.py,        *)
(* _AlignmentSegmentBuilder.getSegments) as a state machine, one action   *)
(* per loop iteration, and property C13 as predicates over                *)
(* (input, observed result).                                              *)
(*                                                                         *)
(* Input  inp = [sc |-> Seq(Int), kd |-> Seq({"P","R","Q"}), ms, bs]       *)
(*   sc[k]  score of the k-th position of the scored position list         *)
(*   kd[k]  "P" aligned pair, "R"/"Q" unpaired reference / query label     *)
(* A segment is [idx |-> Seq(Nat), score |-> Int]: the (1-based) indices   *)
(* of its positions in the input list; the empty segment has idx = <<>>.   *)
(* All scores are integers (the harness scales them).                      *)
(***************************************************************************)
EXTENDS Integers, Sequences, FiniteSets, TLC

-----------------------------------------------------------------------------
(* Arithmetic helpers *)
Pre(sc) == LET f[k \in 0..Len(sc)] == IF k = 0 THEN 0 ELSE f[k-1] + sc[k] IN f
Sum(pre, lo, hi) == pre[hi] - pre[lo-1]            \* sum of sc[lo..hi]
Max0(x) == IF x > 0 THEN x ELSE 0
IdxRange(lo, hi) == [k \in 1..(hi-lo+1) |-> lo + k - 1]
EmptySeg == [idx |-> <<>>, score |-> 0]

-----------------------------------------------------------------------------
(* Implementation-shaped state machine *)
VARIABLES inp,    \* the input record, constant during a behaviour
          i,      \* extendedSegmentEndPosition (number of positions consumed)
          start,  \* currentSegmentStart (0-based)
          ext,    \* extendedSegmentScore
          cur,    \* currentSegment
          res,    \* resultSegments
          pc      \* "scan" | "done"
svars == <<inp, i, start, ext, cur, res, pc>>

InitWith(in) ==
    /\ inp = in /\ i = 0 /\ start = 0 /\ ext = 0 /\ cur = EmptySeg /\ res = <<>> /\ pc = "scan"
StartWith(in) ==
    /\ inp' = in /\ i' = 0 /\ start' = 0 /\ ext' = 0 /\ cur' = EmptySeg /\ res' = <<>> /\ pc' = "scan"

NextScore == ext + inp.sc[i+1]
BreakNow  == NextScore <= Max0(cur.score - inp.bs)

\* the extended score fell to or below the break level and the current segment is good enough
Break_Append ==
    /\ pc = "scan" /\ i < Len(inp.sc) /\ BreakNow /\ cur.score >= inp.ms
    /\ res' = Append(res, cur) /\ cur' = EmptySeg
    /\ start' = i + 1 /\ i' = i + 1 /\ ext' = 0
    /\ UNCHANGED <<inp, pc>>

\* ... and is not: the builder does NOT reset currentSegment (named deviation: the stale
\* sub-threshold segment survives the break and the next run is measured against it)
Break_KeepsStale ==
    /\ pc = "scan" /\ i < Len(inp.sc) /\ BreakNow /\ cur.score < inp.ms
    /\ start' = i + 1 /\ i' = i + 1 /\ ext' = 0
    /\ UNCHANGED <<inp, pc, res, cur>>

Extend_Accept ==
    /\ pc = "scan" /\ i < Len(inp.sc) /\ ~BreakNow /\ NextScore > cur.score
    /\ cur' = [idx |-> IdxRange(start + 1, i + 1), score |-> NextScore]
    /\ ext' = NextScore /\ i' = i + 1
    /\ UNCHANGED <<inp, pc, res, start>>

Extend_NoAccept ==
    /\ pc = "scan" /\ i < Len(inp.sc) /\ ~BreakNow /\ NextScore <= cur.score
    /\ ext' = NextScore /\ i' = i + 1
    /\ UNCHANGED <<inp, pc, res, start, cur>>

Finish ==
    /\ pc = "scan" /\ i = Len(inp.sc)
    /\ res' = IF cur.score >= inp.ms THEN Append(res, cur) ELSE res
    /\ pc' = "done"
    /\ UNCHANGED <<inp, i, start, ext, cur>>

SegNext == Break_Append \/ Break_KeepsStale \/ Extend_Accept \/ Extend_NoAccept \/ Finish

Done == pc = "done"
Result == IF res = <<>> THEN <<EmptySeg>> ELSE res

-----------------------------------------------------------------------------
(* Property C13 as clauses over (input, observed result).                   *)
(* Domain: ms >= 1, bs >= 0, unpaired positions score <= 0.                 *)
(* "falls bs or more below its running maximum" is read with "falls" =      *)
(* strictly lower (drop > 0): for bs >= 1 this is the literal clause, for   *)
(* bs = 0 it is implied by the literal clause (which has no model there);   *)
(* right-maximality and the converse are demanded for bs >= 1 only (a tie   *)
(* with the maximum breaks a run when bs = 0).                              *)

InDomain(in) == /\ in.ms >= 1 /\ in.bs >= 0 /\ Len(in.sc) = Len(in.kd)
                /\ \A k \in 1..Len(in.sc) : in.kd[k] # "P" => in.sc[k] <= 0

IsEmptyResult(obs) == Len(obs) = 1 /\ obs[1].idx = <<>>

\* no prefix of lo..h is non-positive or lies bs or more below the running maximum
PrefixOK(pre, bs, lo, h) ==
    \A k \in lo..h : /\ Sum(pre, lo, k) > 0
                     /\ \A g \in lo..k : LET d == Sum(pre, lo, g) - Sum(pre, lo, k) IN d <= 0 \/ d < bs

Qualifies(in, pre, lo, hi) ==
    /\ in.kd[lo] = "P" /\ in.sc[lo] > 0 /\ in.kd[hi] = "P" /\ in.sc[hi] > 0
    /\ Sum(pre, lo, hi) >= in.ms
    /\ PrefixOK(pre, in.bs, lo, hi)
    /\ \A h \in lo..(hi-1) : Sum(pre, lo, h) < Sum(pre, lo, hi)

SegClauses(in, pre, s) ==
    LET n  == Len(in.sc)
        m  == Len(s.idx)
        lo == s.idx[1]
        hi == s.idx[m]
        contiguous == /\ m >= 1 /\ lo >= 1 /\ hi <= n
                      /\ \A k \in 1..m : s.idx[k] = lo + k - 1
    IN IF ~contiguous THEN {"contiguous"}
       ELSE (IF in.kd[lo] = "P" /\ in.sc[lo] > 0 THEN {} ELSE {"starts_on_positive_pair"})
        \cup (IF in.kd[hi] = "P" /\ in.sc[hi] > 0 THEN {} ELSE {"ends_on_positive_pair"})
        \cup (IF s.score = Sum(pre, lo, hi) THEN {} ELSE {"score_is_sum"})
        \cup (IF Sum(pre, lo, hi) >= in.ms THEN {} ELSE {"score_ge_minScore"})
        \cup (IF \A k \in lo..hi : Sum(pre, lo, k) > 0 THEN {} ELSE {"prefix_positive"})
        \cup (IF \A k \in lo..hi : \A g \in lo..k : LET d == Sum(pre, lo, g) - Sum(pre, lo, k) IN d <= 0 \/ d < in.bs
              THEN {} ELSE {"prefix_drop_below_break"})
        \cup (IF \A h \in lo..(hi-1) : Sum(pre, lo, h) < Sum(pre, lo, hi) THEN {} ELSE {"ends_at_first_maximum"})
        \cup (IF in.bs = 0 \/ \A h2 \in (hi+1)..n :
                    Sum(pre, lo, h2) > Sum(pre, lo, hi)
                       => \E j \in (hi+1)..(h2-1) : ~PrefixOK(pre, in.bs, lo, j)
              THEN {} ELSE {"right_maximal"})

\* the converse of the last sentence is demanded only where ms <= bs (DESIGN.md section 4, C13)
ConverseApplies(in) == in.ms <= in.bs /\ in.bs >= 1

C13_Failed(in, obs) ==
    LET pre == Pre(in.sc)
        n   == Len(in.sc)
    IN IF Len(obs) = 0 THEN {"result_nonempty_list"}
       ELSE IF IsEmptyResult(obs)
       THEN (IF obs[1].score = 0 THEN {} ELSE {"empty_score_zero"})
            \cup (IF ConverseApplies(in) /\ \E lo \in 1..n : \E hi \in lo..n : Qualifies(in, pre, lo, hi)
                  THEN {"empty_although_run_qualifies"} ELSE {})
       ELSE (IF \A k \in 1..Len(obs) : obs[k].idx # <<>> THEN {} ELSE {"no_empty_among_segments"})
            \cup UNION {IF obs[k].idx = <<>> THEN {} ELSE SegClauses(in, pre, obs[k]) : k \in 1..Len(obs)}
            \cup (IF \A k \in 1..(Len(obs)-1) :
                        obs[k].idx # <<>> /\ obs[k+1].idx # <<>>
                           => obs[k].idx[Len(obs[k].idx)] + 1 < obs[k+1].idx[1]
                  THEN {} ELSE {"disjoint_ordered_separated"})

C13_Holds(in, obs) == C13_Failed(in, obs) = {}
=============================================================================
