------------------------------ MODULE Trace_Cmap ------------------------------
(* (C) CMAP files rendered by the harness from rows (shuffled, extra columns, one decimal) and read by the REAL    *)
(* CmapReader, and OpticalMap.trim of the maps read.                                                                *)
(*  {"kind": "read", "rows": [{cid, chan, pos}], "filter": [ids], "obs": [{id, len, x}], "status": "ok"|"exc:.."}    *)
(*  {"kind": "trim", "m": {len, x}, "tr": {len, x}, "tr2": {len, x}}                                                 *)
EXTENDS Cmap, Json, IOUtils
Traces == ndJsonDeserialize(IOEnv.TRACE_FILE)
VARIABLE t
tr == Traces[t]
Init == \E j \in 1..Len(Traces) :
          /\ t = j
          /\ IF Traces[j].kind = "read"
             THEN InitWith(Traces[j].rows, {Traces[j].filter[i] : i \in 1..Len(Traces[j].filter)})
             ELSE InitWith(<<>>, {}) 
Verdict ==
    LET failed == IF tr.kind = "trim" THEN C17_Trim_Failed(tr.m, tr.tr, tr.tr2)
                  ELSE IF ~InDomain(rows) THEN {}
                  ELSE IF tr.status # "ok" THEN {"reader_raised_" \o tr.status}
                  ELSE C17_Read_Failed(rows, filter, tr.obs)
        drift == IF tr.kind = "trim" THEN (IF tr.tr.x = TrimXs(tr.m.x) /\ tr.tr.len = (TrimLen(tr.m.x) - 1) + 10 THEN {} ELSE {"trim_differs_from_spec"})
                 ELSE IF tr.status = "ok" /\ status = "running" /\ maps = tr.obs THEN {}
                 ELSE IF tr.status # "ok" /\ status = "aborted" THEN {}
                 ELSE {"maps_differ_from_spec"}
    IN IF failed \cup drift = {} THEN TRUE ELSE PrintT(ToString(<<"V", t, failed, drift>>))
Report == Done /\ pc # "reported" /\ Verdict /\ pc' = "reported" /\ status' = "reported"
          /\ UNCHANGED <<rows, filter, kept, groups, gi, maps, t>>
Terminated == pc = "reported" /\ UNCHANGED <<cmvars, t>>
Next == (~Done /\ CmapNext /\ UNCHANGED t) \/ Report \/ Terminated
=============================================================================
