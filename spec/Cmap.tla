-------------------------------- MODULE Cmap --------------------------------
(***************************************************************************)
(* CMAP reading (src/parsers/cmap_reader.py, bionano_file_reader.py) at    *)
(* the level of rows, and OpticalMap.trim; property C17.                   *)
(* A row is [cid, chan, pos] (deci-bp); chan = 0 marks the end-marker row  *)
(* whose position is the contig length.  The text layer (pandas) is        *)
(* covered by conformance only: the harness renders rows as CMAP text.     *)
(* A map is [id, len (bp, integer), x : Seq(deci-bp)].                     *)
(***************************************************************************)
EXTENDS Geometry, TLC

-----------------------------------------------------------------------------
(* Impl: filter -> group by CMapId (ascending) -> per group: labels sorted, end marker = first chan-0 row *)
VARIABLES rows, filter, kept, groups, gi, maps, status, pc
cmvars == <<rows, filter, kept, groups, gi, maps, status, pc>>

InitWith(rs, flt) ==
    /\ rows = rs /\ filter = flt /\ kept = <<>> /\ groups = <<>> /\ gi = 1 /\ maps = <<>> /\ status = "running"
    /\ pc = "filter"
\* `if moleculeIds:` : an empty filter means no filter
FilterRows == /\ pc = "filter"
              /\ kept' = IF filter = {} THEN rows ELSE FilterSeq(rows, LAMBDA r : r.cid \in filter)
              /\ pc' = "group" /\ UNCHANGED <<rows, filter, groups, gi, maps, status>>
SortInts(S) == LET RECURSIVE F(_)
                   F(T) == IF T = {} THEN <<>> ELSE LET m == CHOOSE x \in T : \A y \in T : x <= y IN <<m>> \o F(T \ {m})
               IN F(S)
Group == /\ pc = "group"
         /\ groups' = SortInts({kept[j].cid : j \in 1..Len(kept)})
         /\ pc' = "parse" /\ UNCHANGED <<rows, filter, kept, gi, maps, status>>
PosOf(r) == r.pos
ParseGroup ==
    /\ pc = "parse" /\ gi <= Len(groups)
    /\ LET g == FilterSeq(kept, LAMBDA r : r.cid = groups[gi])
           labs == FilterSeq(g, LAMBDA r : r.chan # 0)
           ends == FilterSeq(g, LAMBDA r : r.chan = 0)
       IN IF ends = <<>> THEN status' = "aborted" /\ UNCHANGED maps      \* .iloc[0] on an empty frame
          ELSE /\ status' = status
               /\ maps' = IF labs = <<>> THEN maps
                          ELSE Append(maps, [id |-> groups[gi], len |-> ends[1].pos \div 10,
                                             x |-> LET s == StableSortBy(labs, PosOf) IN [j \in 1..Len(s) |-> s[j].pos]])
    /\ gi' = gi + 1 /\ UNCHANGED <<rows, filter, kept, groups, pc>>
Finish == /\ pc = "parse" /\ gi > Len(groups) /\ pc' = "done" /\ UNCHANGED <<rows, filter, kept, groups, gi, maps, status>>
CmapNext == FilterRows \/ Group \/ ParseGroup \/ Finish
Done == pc = "done" \/ status = "aborted"

-----------------------------------------------------------------------------
(* C17 on (rows, filter) |-> observed maps *)
InDomain(rs) == \A c \in {rs[j].cid : j \in 1..Len(rs)} : Cardinality({j \in 1..Len(rs) : rs[j].cid = c /\ rs[j].chan = 0}) = 1
LabelsOf(rs, c) == {j \in 1..Len(rs) : rs[j].cid = c /\ rs[j].chan # 0}
C17_Read_Failed(rs, flt, obs) ==
    LET want == {c \in {rs[j].cid : j \in 1..Len(rs)} : LabelsOf(rs, c) # {} /\ (flt = {} \/ c \in flt)}
        got  == {obs[j].id : j \in 1..Len(obs)}
    IN (IF got = want /\ Len(obs) = Cardinality(want) THEN {} ELSE {"one_map_per_labelled_molecule_in_filter"})
     \cup (IF \A j \in 1..Len(obs) : obs[j].id \in want =>
                 /\ NonDecreasing(obs[j].x)
                 /\ Len(obs[j].x) = Cardinality(LabelsOf(rs, obs[j].id))
                 /\ \A v \in SeqToSet(obs[j].x) :
                       Cardinality({i \in 1..Len(obs[j].x) : obs[j].x[i] = v})
                         = Cardinality({i \in LabelsOf(rs, obs[j].id) : rs[i].pos = v})
           THEN {} ELSE {"exactly_that_molecules_labels_ascending"})
     \cup (IF \A j \in 1..Len(obs) : obs[j].id \in want =>
                 \E i \in 1..Len(rs) : rs[i].cid = obs[j].id /\ rs[i].chan = 0 /\ obs[j].len = rs[i].pos \div 10
           THEN {} ELSE {"length_is_truncated_end_marker"})

\* trim: tr = [len, x] observed for map m = [len, x]; tr2 = trim applied twice
C17_Trim_Failed(m, tr, tr2) ==
    (IF Len(tr.x) = Len(m.x) THEN {} ELSE {"trim_keeps_label_count"})
    \cup (IF Len(tr.x) >= 1 /\ tr.x[1] = 0 THEN {} ELSE {"trim_moves_first_label_to_0"})
    \cup (IF Len(tr.x) = Len(m.x) /\ \A j \in 1..(Len(m.x)-1) : tr.x[j+1] - tr.x[j] = m.x[j+1] - m.x[j]
          THEN {} ELSE {"trim_keeps_distances"})
    \cup (IF Len(m.x) >= 1 /\ tr.len = m.x[Len(m.x)] - m.x[1] + 10 THEN {} ELSE {"trim_length_is_last_minus_first_plus_1"})
    \cup (IF tr2 = tr THEN {} ELSE {"trim_is_idempotent"})
=============================================================================
