------------------------------ MODULE Trace_Pool ------------------------------
(* (C) what the REAL process pool did, recorded by a harness Extension inside the workers, and the files of    *)
(* repeated runs with different worker counts / steered completion orders.                                      *)
(*  {"order": [task ids in input order],                                                                         *)
(*   "exec": [{"task": id, "pid": p, "seq": n, "sources": [counter values stamped on this task's pairs]}],        *)
(*   "runs": [{"label": "...", "digest": ["main:<sha>", ...]}]}                                                   *)
EXTENDS Integers, Sequences, FiniteSets, TLC, Json, IOUtils

Traces == ndJsonDeserialize(IOEnv.TRACE_FILE)
VARIABLES t, pc
tr == Traces[t]
Init == t \in 1..Len(Traces) /\ pc = "judge"

IndexIn(s, x) == CHOOSE i \in 1..Len(s) : s[i] = x
Verdict ==
    LET E == tr.exec
        \* C09: byte-identical files whatever the number of workers, the completion order, the repetition
        failed == IF \A i, j \in 1..Len(tr.runs) : tr.runs[i].digest = tr.runs[j].digest THEN {}
                  ELSE {"files_identical_across_worker_counts_and_schedules"}
        \* conformance with Pool.tla (informs): every task exactly once; a worker process receives tasks in input
        \* order (Take hands out order[next]); the source tags of a task come from one counter
        drift == IF E = <<>> THEN {} ELSE
                 (IF \A x \in {tr.order[i] : i \in 1..Len(tr.order)} :
                        Cardinality({i \in 1..Len(E) : E[i].task = x}) = 1 THEN {} ELSE {"each_task_runs_exactly_once"})
                 \cup (IF \A i, j \in 1..Len(E) :
                            (E[i].pid = E[j].pid /\ E[i].seq < E[j].seq
                               /\ E[i].task \in {tr.order[k] : k \in 1..Len(tr.order)}
                               /\ E[j].task \in {tr.order[k] : k \in 1..Len(tr.order)})
                            => IndexIn(tr.order, E[i].task) < IndexIn(tr.order, E[j].task)
                       THEN {} ELSE {"worker_takes_tasks_in_input_order"})
                 \cup (IF \A i \in 1..Len(E) : \A a, b \in 1..Len(E[i].sources) :
                            a < b => E[i].sources[b] - E[i].sources[a] < Len(E[i].sources) + 64
                       THEN {} ELSE {"sources_of_a_task_follow_one_counter"})
    IN IF failed \cup drift = {} THEN TRUE ELSE PrintT(ToString(<<"V", t, failed, drift>>))
Report == pc = "judge" /\ Verdict /\ pc' = "reported" /\ UNCHANGED t
Terminated == pc = "reported" /\ UNCHANGED <<t, pc>>
Next == Report \/ Terminated
=============================================================================
