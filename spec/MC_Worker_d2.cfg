CONSTANTS
  McPeaksCount = 2
  Scores = {1, 2, 3}
  Confs = {1, 2}
  EmptySelectionAborts = TRUE
INIT Init
NEXT Next
INVARIANT Inv_C07
INVARIANT Inv_C05
INVARIANT Inv_C16
INVARIANT Inv_Protocol
CHECK_DEADLOCK TRUE
