CONSTANTS
  Refs = {1, 2}
  PeaksCount = 2
  Scores = {1, 2, 3}
  Confs = {0, 1, 2}
  MaxPeaks = 4
  EmptySelectionAborts = TRUE
INIT Init
NEXT Next
INVARIANT Inv_C07
INVARIANT Inv_C05
CHECK_DEADLOCK TRUE
