CONSTANTS
  KeySet <- KeysSmall
  PairLists <- PairListsSmall
  MaxA = 2
  MaxB = 2
INIT Init
NEXT Next
INVARIANT ExportInv
CHECK_DEADLOCK FALSE
